(* C05 — invariants of the dial worker model, for every event order. *)
From Coq Require Import List ZArith Bool Lia Permutation.
From Verif Require Import c05.ModelLimiter c05.Proofs_Limiter c05.ModelWorker.
Import ListNotations.
Local Open Scope Z_scope.

Ltac wprj := cbn [w_pending w_tracked w_dq w_inflight w_connected w_timer w_stopped w_resps
                  w_dials w_refused w_asked w_seen w_flying
                  set_pending set_tracked set_dq set_inflight set_connected set_timer set_stopped
                  set_resps set_dials set_refused set_asked set_seen set_flying
                  tput tdel respond] in *.

(* ---- small list facts --------------------------------------------------------- *)
Lemma memz_In : forall x l, memz x l = true <-> In x l.
Proof.
  intros. unfold memz. rewrite existsb_exists. split.
  - intros [y [H E]]. apply Z.eqb_eq in E. subst. exact H.
  - intros H. exists x. split; [exact H | apply Z.eqb_refl].
Qed.

Lemma memz_false : forall x l, memz x l = false <-> ~ In x l.
Proof.
  intros. rewrite <- memz_In. destruct (memz x l).
  - split; [discriminate | intros H; exfalso; apply H; reflexivity].
  - split; [intros _ H; discriminate | reflexivity].
Qed.

Lemma removez_In : forall x a l, In x (removez a l) <-> In x l /\ x <> a.
Proof.
  induction l as [|y l IH]; cbn [removez].
  - cbn. tauto.
  - destruct (Z.eqb_spec y a).
    + rewrite IH. cbn. split; [tauto|]. intros [[H|H] N]; [congruence | tauto].
    + cbn. rewrite IH. split; [intros [H|H]; [subst; tauto | tauto] | tauto].
Qed.

Lemma remove1_In_other : forall x a l, x <> a -> In x l -> In x (remove1 a l).
Proof.
  induction l as [|y l IH]; intros N H; cbn [remove1]; [exact H|].
  destruct (Z.eqb_spec y a).
  - destruct H; [congruence | exact H].
  - destruct H; [left; exact H | right; apply IH; auto].
Qed.

Lemma remove1_length : forall a l, In a l -> Z.of_nat (length (remove1 a l)) = Z.of_nat (length l) - 1.
Proof.
  induction l as [|y l IH]; intros H; [destruct H|]. cbn [remove1].
  destruct (Z.eqb_spec y a).
  - cbn [length]. lia.
  - destruct H; [congruence|]. cbn [length]. rewrite !Nat2Z.inj_succ, IH; auto. lia.
Qed.

(* ---- tracked table ------------------------------------------------------------------ *)
Lemma tget_tput : forall a b v s, tget a (tput b v s) = if b =? a then Some v else tget a s.
Proof. intros. unfold tget, tput. wprj. apply aget_aput. Qed.

Lemma tget_tdel : forall a b s, tget a (tdel b s) = if b =? a then None else tget a s.
Proof. intros. unfold tget, tdel. wprj. apply aget_adel. Qed.

Lemma tget_tput' : forall a b v s,
  tget a (set_tracked s (aput b (Some v) (w_tracked s))) = if b =? a then Some v else tget a s.
Proof. intros. apply (tget_tput a b v s). Qed.

Lemma tget_tdel' : forall a b s,
  tget a (set_tracked s (adel b (w_tracked s))) = if b =? a then None else tget a s.
Proof. intros. apply (tget_tdel a b s). Qed.

Ltac tg := unfold tget in *; wprj; rewrite ?aget_aput, ?aget_adel.
Ltac tgin H := unfold tget in *; wprj; rewrite ?aget_aput, ?aget_adel in H.

(* ---- T1: at most one response per request ----------------------------------------------
   ids = requests still pending ++ requests already answered *)
Definition ids (s : wst) : list Z := map pr_id (w_pending s) ++ map fst (w_resps s).

Lemma disp_loop_perm : forall a bestl prs keep out,
  disp_loop a bestl prs = (keep, out) ->
  Permutation (map pr_id prs) (map pr_id keep ++ map fst out).
Proof.
  induction prs as [|pr r IH]; intros keep out H; cbn [disp_loop] in H.
  - inversion H; subst. constructor.
  - destruct (disp_loop a bestl r) as [k o]. specialize (IH _ _ eq_refl).
    destruct (memz a (pr_addrs pr)).
    + destruct (removez a (pr_addrs pr)).
      * inversion H; subst. cbn [map fst]. apply Permutation_cons_app. exact IH.
      * inversion H; subst. cbn [map pr_id app]. constructor. exact IH.
    + inversion H; subst. cbn [map app]. constructor. exact IH.
Qed.

Lemma succ_loop_perm : forall a prs keep out,
  succ_loop a prs = (keep, out) ->
  Permutation (map pr_id prs) (map pr_id keep ++ map fst out).
Proof.
  induction prs as [|pr r IH]; intros keep out H; cbn [succ_loop] in H.
  - inversion H; subst. constructor.
  - destruct (succ_loop a r) as [k o]. specialize (IH _ _ eq_refl).
    destruct (memz a (pr_addrs pr)); inversion H; subst.
    + cbn [map fst]. apply Permutation_cons_app. exact IH.
    + cbn [map app]. constructor. exact IH.
Qed.

Lemma move_perm : forall (P K O R : list Z), Permutation P (K ++ O) ->
  Permutation (P ++ R) (K ++ (R ++ O)).
Proof.
  intros. rewrite (Permutation_app_comm R O), app_assoc. apply Permutation_app_tail. exact H.
Qed.

Lemma dispatch_error_ids : forall s a e bestl,
  Permutation (ids s) (ids (dispatch_error s a e bestl)) /\
  w_seen (dispatch_error s a e bestl) = w_seen s.
Proof.
  intros. unfold dispatch_error.
  set (s1 := match tget a s with Some ad => tput a (ad_set_st ad DErr) s | None => s end).
  assert (E1 : w_pending s1 = w_pending s /\ w_resps s1 = w_resps s /\ w_seen s1 = w_seen s).
  { unfold s1. destruct (tget a s); auto. }
  destruct E1 as [Ep [Er Es]].
  destruct (disp_loop a bestl (w_pending s1)) as [keep out] eqn:E.
  pose proof (disp_loop_perm _ _ _ _ _ E) as P. rewrite Ep in P.
  assert (Q : Permutation (ids s) (map pr_id keep ++ map fst (w_resps s1 ++ out))).
  { unfold ids. rewrite Er, map_app. apply move_perm, P. }
  destruct e; unfold ids; wprj; auto.
Qed.

Lemma schedule_same : forall s,
  w_pending (schedule s) = w_pending s /\ w_resps (schedule s) = w_resps s /\
  w_seen (schedule s) = w_seen s /\ w_tracked (schedule s) = w_tracked s /\
  w_dq (schedule s) = w_dq s /\ w_dials (schedule s) = w_dials s /\
  w_flying (schedule s) = w_flying s /\ w_inflight (schedule s) = w_inflight s /\
  w_asked (schedule s) = w_asked s /\ w_refused (schedule s) = w_refused s.
Proof.
  intros. unfold schedule.
  destruct (w_dq s) eqn:E; [|destruct ((w_inflight s =? 0) && negb (w_connected s))];
    wprj; rewrite ?E; repeat split; reflexivity.
Qed.

Lemma batch_loop_ids : forall bo bestl batch s,
  Permutation (ids s) (ids (batch_loop bo bestl batch s)) /\
  w_seen (batch_loop bo bestl batch s) = w_seen s.
Proof.
  induction batch as [|[a d] r IH]; intros s; cbn [batch_loop]; [split; auto|].
  destruct (tget a s) as [ad|].
  - destruct (negb (ad_fdir ad) && memz a bo).
    + match goal with |- context [batch_loop bo bestl r ?x] => destruct (IH x) as [P S] end.
      match type of P with Permutation (ids (dispatch_error ?y _ _ _)) _ =>
        destruct (dispatch_error_ids y a EBackoff bestl) as [P2 S2] end.
      split.
      * eapply Permutation_trans; [|exact P]. eapply Permutation_trans; [|exact P2].
        unfold ids. wprj. apply Permutation_refl.
      * rewrite S, S2. reflexivity.
    + match goal with |- context [batch_loop bo bestl r ?x] => destruct (IH x) as [P S] end.
      split; [exact P | rewrite S; reflexivity].
  - apply IH.
Qed.

Lemma join_loop_same : forall sim rk tj s,
  w_pending (join_loop sim rk tj s) = w_pending s /\ w_resps (join_loop sim rk tj s) = w_resps s /\
  w_seen (join_loop sim rk tj s) = w_seen s.
Proof.
  induction tj as [|a r IH]; intros s; cbn [join_loop]; [auto|].
  match goal with |- context [join_loop sim rk r ?x] => destruct (IH x) as [A [B C]]; rewrite A, B, C end.
  destruct (tget a s) as [ad|]; [|auto].
  destruct (negb (ad_dialed ad) && sim && negb (ad_sim ad)); auto.
Qed.

Lemma todial_loop_same : forall sim fdir rk td s,
  w_pending (todial_loop sim fdir rk td s) = w_pending s /\
  w_resps (todial_loop sim fdir rk td s) = w_resps s /\
  w_seen (todial_loop sim fdir rk td s) = w_seen s.
Proof.
  induction td as [|a r IH]; intros s; cbn [todial_loop]; [auto|].
  match goal with |- context [todial_loop sim fdir rk r ?x] => destruct (IH x) as [A [B C]]; rewrite A, B, C end.
  auto.
Qed.

(* well-formed events: request ids are fresh; a final result (and a progress
   update) only comes for a dial that is in flight and is never ErrDialBackoff;
   a ranking lists each address once (ranker_is_permutation + ma.Unique) *)
Definition is_final (r : dres) : bool := match r with DRProgress _ _ => false | _ => true end.

Definition wf_ev (s : wst) (e : wev) : Prop :=
  match e with
  | WReq rid _ _ _ rank =>
      ~ In rid (w_seen s) /\ match rank with Some rk => NoDup (map fst rk) | None => True end
  | WRes a r _ => In a (w_flying s) /\ r <> DRFail EBackoff
  | _ => True
  end.

Fixpoint wf_run (s : wst) (evs : list wev) : Prop :=
  match evs with
  | [] => True
  | e :: r => (w_stopped s = false -> wf_ev s e) /\ wf_run (wstep s e) r
  end.

Record InvA (s : wst) : Prop := mkInvA {
  a_nodup : NoDup (ids s);
  a_seen : incl (ids s) (w_seen s);
  a_all : incl (w_seen s) (ids s) }.

Lemma perm_invA : forall s s', InvA s -> Permutation (ids s) (ids s') -> w_seen s' = w_seen s -> InvA s'.
Proof.
  intros s s' [N I J] P S. constructor.
  - eapply Permutation_NoDup; eauto.
  - intros x H. rewrite S. apply I. eapply Permutation_in; [apply Permutation_sym; exact P | exact H].
  - intros x H. rewrite S in H. eapply Permutation_in; [exact P | apply J, H].
Qed.

Lemma NoDup_snoc : forall (l : list Z) x, NoDup l -> ~ In x l -> NoDup (l ++ [x]).
Proof.
  intros l x N F. apply (Permutation_NoDup (l := x :: l)).
  - apply Permutation_cons_append.
  - constructor; auto.
Qed.

Lemma fresh_invA : forall s s' rid, InvA s -> ~ In rid (w_seen s) ->
  Permutation (ids s') (rid :: ids s) -> w_seen s' = w_seen s ++ [rid] -> InvA s'.
Proof.
  intros s s' rid [N I J] F P S. constructor.
  - eapply Permutation_NoDup; [apply Permutation_sym; exact P|]. constructor; auto.
  - intros x H. rewrite S. apply in_or_app. eapply Permutation_in in H; [|exact P].
    destruct H as [H|H]; [right; left; exact H | left; apply I, H].
  - intros x H. rewrite S in H. apply in_app_or in H. eapply Permutation_in; [apply Permutation_sym; exact P|].
    destruct H as [H|[H|[]]]; [right; apply J, H | left; exact H].
Qed.

Lemma on_request_invA : forall s rid sim fdir best rank, InvA s -> ~ In rid (w_seen s) ->
  InvA (on_request s rid sim fdir best rank).
Proof.
  intros s rid sim fdir best rank A F. unfold on_request.
  set (s0 := set_seen s (w_seen s ++ [rid])).
  assert (R : forall r, InvA (respond s0 rid r)).
  { intros r. apply (fresh_invA s _ rid A F); unfold ids, s0; wprj; [|reflexivity].
    rewrite map_app. cbn [map fst]. rewrite app_assoc. apply Permutation_sym, Permutation_cons_append. }
  destruct best; [apply R|]. destruct rank as [rk|]; [|apply R].
  destruct (scan s0 rk [] [] []) as [|td tj ed]; [apply R|].
  assert (M : forall s3, w_pending s3 = w_pending s ++ [mkPr rid (removeall ed (nodupz (map fst rk)))] ->
                         w_resps s3 = w_resps s -> w_seen s3 = w_seen s ++ [rid] -> InvA s3).
  { intros s3 E1 E2 E3. apply (fresh_invA s _ rid A F); [|exact E3]. unfold ids. rewrite E1, E2, map_app.
    cbn [map pr_id]. rewrite <- app_assoc. cbn [app]. apply Permutation_sym, Permutation_middle. }
  assert (G : InvA (schedule (todial_loop sim fdir rk td (join_loop sim rk tj
                (set_pending s0 (w_pending s0 ++ [mkPr rid (removeall ed (nodupz (map fst rk)))])))))).
  { apply M.
    - destruct (schedule_same (todial_loop sim fdir rk td (join_loop sim rk tj
                (set_pending s0 (w_pending s0 ++ [mkPr rid (removeall ed (nodupz (map fst rk)))])))))
        as [E _]. rewrite E.
      destruct (todial_loop_same sim fdir rk td (join_loop sim rk tj
                (set_pending s0 (w_pending s0 ++ [mkPr rid (removeall ed (nodupz (map fst rk)))]))))
        as [E' _]. rewrite E'.
      destruct (join_loop_same sim rk tj
                (set_pending s0 (w_pending s0 ++ [mkPr rid (removeall ed (nodupz (map fst rk)))])))
        as [E'' _]. rewrite E''. reflexivity.
    - match goal with |- w_resps (schedule ?x) = _ => destruct (schedule_same x) as [_ [E _]]; rewrite E end.
      match goal with |- w_resps (todial_loop _ _ _ _ ?x) = _ =>
        destruct (todial_loop_same sim fdir rk td x) as [_ [E' _]]; rewrite E' end.
      match goal with |- w_resps (join_loop _ _ _ ?x) = _ =>
        destruct (join_loop_same sim rk tj x) as [_ [E'' _]]; rewrite E'' end. reflexivity.
    - match goal with |- w_seen (schedule ?x) = _ => destruct (schedule_same x) as [_ [_ [E _]]]; rewrite E end.
      match goal with |- w_seen (todial_loop _ _ _ _ ?x) = _ =>
        destruct (todial_loop_same sim fdir rk td x) as [_ [_ E']]; rewrite E' end.
      match goal with |- w_seen (join_loop _ _ _ ?x) = _ =>
        destruct (join_loop_same sim rk tj x) as [_ [_ E'']]; rewrite E'' end. reflexivity. }
  destruct td; destruct tj; try exact G. apply R.
Qed.

Lemma schedule_ids : forall s, ids (schedule s) = ids s /\ w_seen (schedule s) = w_seen s.
Proof.
  intros. destruct (schedule_same s) as [A [B [C _]]]. unfold ids. rewrite A, B, C. auto.
Qed.

Lemma wstep_invA : forall s e, InvA s -> (w_stopped s = false -> wf_ev s e) -> InvA (wstep s e).
Proof.
  intros s e A W. unfold wstep. destruct (w_stopped s) eqn:St; [exact A|]. specialize (W eq_refl).
  destruct e as [rid sim fdir best rank|bo bestl|a r bestl|].
  - destruct W as [F _]. apply on_request_invA; auto.
  - unfold on_timer. destruct (next_batch (w_dq s)) as [batch rest].
    destruct (schedule_ids (batch_loop bo bestl batch (set_dq s rest))) as [E1 E2].
    destruct (batch_loop_ids bo bestl batch (set_dq s rest)) as [P S].
    eapply perm_invA; [exact A| |].
    + rewrite E1. exact P.
    + rewrite E2, S. reflexivity.
  - unfold on_result. destruct (tget a s) as [ad|].
    + destruct r as [addok|e|pub now].
      * destruct addok.
        -- match goal with |- context [succ_loop a ?p] => destruct (succ_loop a p) as [keep out] eqn:E end.
           pose proof (succ_loop_perm _ _ _ _ E) as P. wprj.
           eapply perm_invA; [exact A| |reflexivity]. unfold ids. wprj. rewrite map_app. apply move_perm, P.
        -- match goal with |- InvA (dispatch_error ?x a EOther bestl) =>
             destruct (dispatch_error_ids x a EOther bestl) as [P S] end.
           eapply perm_invA; [exact A| |].
           ++ eapply Permutation_trans; [|exact P]. unfold ids. wprj. apply Permutation_refl.
           ++ rewrite S. reflexivity.
      * match goal with |- InvA (schedule (dispatch_error ?x a e bestl)) =>
          destruct (dispatch_error_ids x a e bestl) as [P S];
          destruct (schedule_ids (dispatch_error x a e bestl)) as [E1 E2] end.
        eapply perm_invA; [exact A| |].
        -- rewrite E1. eapply Permutation_trans; [|exact P]. unfold ids. wprj. apply Permutation_refl.
        -- rewrite E2, S. reflexivity.
      * match goal with |- InvA (schedule ?x) => destruct (schedule_ids x) as [E1 E2] end.
        eapply perm_invA; [exact A| |].
        -- rewrite E1. destruct pub; unfold ids; wprj; apply Permutation_refl.
        -- rewrite E2. destruct pub; reflexivity.
    + eapply perm_invA; [exact A| |]; unfold ids; wprj; auto.
  - constructor; destruct A; unfold ids in *; wprj; auto.
Qed.

Lemma init_invA : InvA init_w.
Proof. constructor; unfold ids; cbn; [constructor | intros x [] | intros x []]. Qed.

Lemma wrun_invA : forall evs s, InvA s -> wf_run s evs -> InvA (wrun s evs).
Proof.
  induction evs as [|e r IH]; intros s A W; cbn [wrun fold_left]; [exact A|].
  destruct W as [W1 W2]. apply IH; [apply wstep_invA; auto | exact W2].
Qed.

Lemma NoDup_app_r : forall (a b : list Z), NoDup (a ++ b) -> NoDup b.
Proof. induction a; intros b H; [exact H|]. inversion H; subst. apply IHa. assumption. Qed.

Lemma response_at_most_once_l : forall evs, wf_run init_w evs ->
  NoDup (map fst (w_resps (wrun init_w evs))).
Proof.
  intros evs W. destruct (wrun_invA evs init_w init_invA W) as [N _ _].
  unfold ids in N. apply NoDup_app_r in N. exact N.
Qed.

(* ---- T2: at quiescence no request is pending ------------------------------------------- *)
Definition keys (q : list (Z * Z)) : list Z := map fst q.

(* address x is tracked and its dial has neither succeeded nor failed *)
Definition PT (s : wst) (x : Z) : Prop := exists ad, tget x s = Some ad /\ ad_st ad = DPending.

Record InvL (s : wst) (limbo : list Z) : Prop := mkInvL {
  lD : forall pr, In pr (w_pending s) -> pr_addrs pr <> [] /\ forall a, In a (pr_addrs pr) -> PT s a;
  lE : forall x ad, tget x s = Some ad -> ad_st ad = DPending ->
         (ad_dialed ad = false -> In x (limbo ++ keys (w_dq s))) /\
         (ad_dialed ad = true -> In x (w_flying s));
  lF : w_inflight s = Z.of_nat (length (w_flying s)) }.

Lemma dq_add_keys : forall y q x, In x (keys (dq_add y q)) <-> x = fst y \/ In x (keys q).
Proof.
  induction q as [|z r IH]; intros x; cbn [dq_add].
  - cbn. intuition.
  - destruct (existsb _ (z :: r)).
    + cbn [keys map In] in *. rewrite IH. intuition.
    + cbn [keys map In]. intuition.
Qed.

Lemma dq_scan_keys : forall a d n q, (length q <= n)%nat -> forall q', dq_scan a d q = Some q' ->
  (forall x, x <> a -> In x (keys q) -> In x (keys q')) /\ (forall x, In x (keys q') -> In x (keys q)).
Proof.
  induction n as [|n IH]; intros q Hl q' H.
  - destruct q; [|cbn in Hl; lia]. cbn in H. inversion H; subst. split; auto.
  - destruct q as [|y r]; [cbn in H; inversion H; subst; split; auto|].
    cbn [dq_scan] in H. cbn [length] in Hl.
    destruct (fst y =? a) eqn:Ey.
    + destruct (snd y =? d); [discriminate|].
      destruct r as [|z r'].
      * inversion H; subst. split; [|intros x []].
        intros x N Hx. cbn in Hx. destruct Hx as [Hx|[]]. apply Z.eqb_eq in Ey. congruence.
      * destruct (dq_scan a d r') as [q2|] eqn:E2; [|discriminate]. cbn [option_map] in H.
        inversion H; subst. cbn [length] in Hl. destruct (IH r' ltac:(lia) _ E2) as [A B]. split.
        -- intros x N Hx. cbn [keys map In] in *. destruct Hx as [Hx|[Hx|Hx]].
           ++ apply Z.eqb_eq in Ey. congruence.
           ++ left. exact Hx.
           ++ right. apply A; auto.
        -- intros x Hx. cbn [keys map In] in *. destruct Hx as [Hx|Hx]; [right; left; exact Hx|].
           right. right. apply B, Hx.
    + destruct (dq_scan a d r) as [q2|] eqn:E2; [|discriminate]. cbn [option_map] in H.
      inversion H; subst. destruct (IH r ltac:(lia) _ E2) as [A B]. split.
      * intros x N Hx. cbn [keys map In] in *. destruct Hx as [Hx|Hx]; [left; exact Hx | right; apply A; auto].
      * intros x Hx. cbn [keys map In] in *. destruct Hx as [Hx|Hx]; [left; exact Hx | right; apply B, Hx].
Qed.

Lemma dq_uoa_mono : forall a d q x, In x (keys q) -> In x (keys (dq_update_or_add a d q)).
Proof.
  intros a d q x H. unfold dq_update_or_add. destruct (dq_scan a d q) as [q'|] eqn:E; [|exact H].
  apply dq_add_keys. cbn [fst]. destruct (Z.eq_dec x a); [left; exact e|].
  right. eapply (proj1 (dq_scan_keys a d _ q (le_n _) _ E)); eauto.
Qed.

Lemma dq_uoa_keys : forall a d q x, In x (keys (dq_update_or_add a d q)) -> x = a \/ In x (keys q).
Proof.
  intros a d q x H. unfold dq_update_or_add in H. destruct (dq_scan a d q) as [q'|] eqn:E; [|right; exact H].
  apply dq_add_keys in H. cbn [fst] in H. destruct H as [H|H]; [left; exact H|].
  right. eapply (proj2 (dq_scan_keys a d _ q (le_n _) _ E)); eauto.
Qed.

Lemma span_delay_app : forall d q b r, span_delay d q = (b, r) -> q = b ++ r.
Proof.
  induction q as [|y q IH]; intros b r H; cbn [span_delay] in H.
  - inversion H; reflexivity.
  - destruct (snd y =? d).
    + destruct (span_delay d q) as [b' r']. inversion H; subst. cbn [app]. f_equal. apply IH. reflexivity.
    + inversion H; reflexivity.
Qed.

Lemma next_batch_app : forall q b r, next_batch q = (b, r) -> q = b ++ r.
Proof.
  intros q b r H. unfold next_batch in H. destruct q; [inversion H; reflexivity|].
  eapply span_delay_app; eauto.
Qed.

Lemma disp_loop_keep : forall a bestl prs keep out, disp_loop a bestl prs = (keep, out) ->
  forall pr', In pr' keep -> exists pr, In pr prs /\
    (forall x, In x (pr_addrs pr') -> In x (pr_addrs pr) /\ x <> a) /\
    (pr_addrs pr <> [] -> pr_addrs pr' <> []).
Proof.
  induction prs as [|pr r IH]; intros keep out H pr' Hin; cbn [disp_loop] in H.
  - inversion H; subst. destruct Hin.
  - destruct (disp_loop a bestl r) as [k o]. specialize (IH _ _ eq_refl).
    destruct (memz a (pr_addrs pr)) eqn:Em.
    + destruct (removez a (pr_addrs pr)) as [|z l] eqn:Er.
      * inversion H; subst. destruct (IH _ Hin) as [p [A B]]. exists p. split; [right; exact A | exact B].
      * inversion H; subst. destruct Hin as [Hin|Hin].
        -- subst pr'. exists pr. split; [left; reflexivity|]. cbn [pr_addrs]. split.
           ++ intros x Hx. rewrite <- Er in Hx. apply removez_In in Hx. exact Hx.
           ++ intros _. discriminate.
        -- destruct (IH _ Hin) as [p [A B]]. exists p. split; [right; exact A | exact B].
    + inversion H; subst. destruct Hin as [Hin|Hin].
      * subst pr'. exists pr. split; [left; reflexivity|]. split; [|auto].
        intros x Hx. split; [exact Hx|]. intros ->. apply memz_false in Em. contradiction.
      * destruct (IH _ Hin) as [p [A B]]. exists p. split; [right; exact A | exact B].
Qed.

Lemma succ_loop_keep : forall a prs keep out, succ_loop a prs = (keep, out) ->
  forall pr', In pr' keep -> In pr' prs /\ ~ In a (pr_addrs pr').
Proof.
  induction prs as [|pr r IH]; intros keep out H pr' Hin; cbn [succ_loop] in H.
  - inversion H; subst. destruct Hin.
  - destruct (succ_loop a r) as [k o]. specialize (IH _ _ eq_refl).
    destruct (memz a (pr_addrs pr)) eqn:Em; inversion H; subst.
    + destruct (IH _ Hin). split; [right|]; assumption.
    + destruct Hin as [Hin|Hin].
      * subst. split; [left; reflexivity|]. apply memz_false, Em.
      * destruct (IH _ Hin). split; [right|]; assumption.
Qed.

(* dispatchError re-establishes the invariant even when the entry of [a] itself is
   momentarily inconsistent (its dial has just ended / has just been refused) *)
Lemma dispatch_error_invL : forall s a e bestl limbo,
  (forall pr, In pr (w_pending s) -> pr_addrs pr <> [] /\ forall x, In x (pr_addrs pr) -> x <> a -> PT s x) ->
  (forall x ad, x <> a -> tget x s = Some ad -> ad_st ad = DPending ->
         (ad_dialed ad = false -> In x (limbo ++ keys (w_dq s))) /\
         (ad_dialed ad = true -> In x (w_flying s))) ->
  w_inflight s = Z.of_nat (length (w_flying s)) ->
  InvL (dispatch_error s a e bestl) limbo.
Proof.
  intros s a e bestl limbo D E F. unfold dispatch_error.
  set (s1 := match tget a s with Some ad => tput a (ad_set_st ad DErr) s | None => s end).
  assert (T1 : forall x, x <> a -> tget x s1 = tget x s).
  { intros x N. unfold s1. destruct (tget a s); [|reflexivity]. tg.
    destruct (a =? x) eqn:Ea; [apply Z.eqb_eq in Ea; congruence | reflexivity]. }
  assert (Ta : forall ad, tget a s1 = Some ad -> ad_st ad = DErr).
  { intros ad H. unfold s1 in H. destruct (tget a s) eqn:Et.
    - tgin H; rewrite Z.eqb_refl in H. inversion H; subst. reflexivity.
    - congruence. }
  assert (S1 : w_pending s1 = w_pending s /\ w_dq s1 = w_dq s /\ w_flying s1 = w_flying s /\ w_inflight s1 = w_inflight s).
  { unfold s1. destruct (tget a s); repeat split. }
  destruct S1 as [Sp [Sq [Sf Si]]].
  destruct (disp_loop a bestl (w_pending s1)) as [keep out] eqn:El.
  pose proof (disp_loop_keep _ _ _ _ _ El) as K. rewrite Sp in K.
  set (s2 := set_resps (set_pending s1 keep) (w_resps s1 ++ out)).
  assert (G : forall s3, (forall x, x <> a -> tget x s3 = tget x s1) ->
                (forall ad, tget a s3 = Some ad -> ad_st ad = DErr) ->
                w_pending s3 = keep -> w_dq s3 = w_dq s -> w_flying s3 = w_flying s ->
                w_inflight s3 = w_inflight s -> InvL s3 limbo).
  { intros s3 T3 T3a P3 Q3 F3 I3. constructor.
    - intros pr' Hin. rewrite P3 in Hin. destruct (K _ Hin) as [pr [Hp [Hx Hn]]].
      destruct (D _ Hp) as [Dn Dx]. split; [auto|].
      intros x Hxin. destruct (Hx _ Hxin) as [Hx1 Hx2]. destruct (Dx _ Hx1 Hx2) as [ad [A1 A2]].
      exists ad. split; [|exact A2]. rewrite T3, T1; auto.
    - intros x ad Hg Hs. destruct (Z.eq_dec x a) as [->|N].
      + apply T3a in Hg. congruence.
      + rewrite T3, T1 in Hg by auto. rewrite Q3, F3. apply (E x ad); auto.
    - rewrite I3, F3. exact F. }
  destruct e.
  - apply G; unfold s2; wprj; auto.
  - apply G; unfold s2; wprj; auto.
  - apply G; unfold s2; wprj; auto.
    + intros x N. tg. destruct (a =? x) eqn:Ea; [apply Z.eqb_eq in Ea; congruence | reflexivity].
    + intros ad H. tgin H; rewrite Z.eqb_refl in H. discriminate.
Qed.

Lemma invL_weaken : forall s limbo, InvL s limbo -> forall a,
  (forall pr, In pr (w_pending s) -> pr_addrs pr <> [] /\ forall x, In x (pr_addrs pr) -> x <> a -> PT s x).
Proof. intros s limbo [D _ _] a pr H. destruct (D _ H) as [A B]. split; auto. Qed.

Lemma batch_loop_invL : forall bo bestl batch s,
  InvL s (keys batch) -> InvL (batch_loop bo bestl batch s) [].
Proof.
  induction batch as [|[a d] r IH]; intros s L; cbn [batch_loop]; [exact L|].
  apply IH. cbn [keys map fst] in L. fold (keys r) in L.
  destruct (tget a s) as [ad|] eqn:Et.
  - destruct (negb (ad_fdir ad) && memz a bo).
    + apply dispatch_error_invL; wprj.
      * intros pr Hin. destruct L as [D _ _]. destruct (D _ Hin) as [A B]. split; [exact A|].
        intros x Hx N. destruct (B _ Hx) as [ad' [G1 G2]]. exists ad'. split; [|exact G2].
        tg. destruct (a =? x) eqn:Ea; [apply Z.eqb_eq in Ea; congruence | exact G1].
      * intros x ad' N Hg Hs. tgin Hg.
        destruct (a =? x) eqn:Ea; [apply Z.eqb_eq in Ea; congruence|].
        destruct L as [_ E _]. destruct (E x ad' Hg Hs) as [E1 E2]. split; [|exact E2].
        intros Hd. specialize (E1 Hd). cbn [app] in E1. destruct E1 as [E1|E1]; [congruence | exact E1].
      * destruct L. exact lF0.
    + destruct L as [D E F]. constructor; wprj.
      * intros pr Hin. destruct (D _ Hin) as [A B]. split; [exact A|].
        intros x Hx. destruct (B _ Hx) as [ad' [G1 G2]]. tg.
        destruct (a =? x) eqn:Ea.
        -- apply Z.eqb_eq in Ea. subst x. rewrite Et in G1. inversion G1; subst.
           unfold PT, tget; wprj; rewrite ?aget_aput, ?Z.eqb_refl.
           eexists. split; [reflexivity | exact G2].
        -- unfold PT, tget in *; wprj; rewrite aget_aput, Ea. exists ad'. split; assumption.
      * intros x ad' Hg Hs. tgin Hg. destruct (a =? x) eqn:Ea.
        -- apply Z.eqb_eq in Ea. subst x. inversion Hg; subst. cbn [ad_dialed ad_set_dialed]. split; [discriminate|].
           intros _. apply in_or_app. right. left. reflexivity.
        -- destruct (E x ad' Hg Hs) as [E1 E2]. split.
           ++ intros Hd. specialize (E1 Hd). cbn [app] in E1. destruct E1 as [E1|E1]; [|exact E1].
              apply Z.eqb_neq in Ea. congruence.
           ++ intros Hd. apply in_or_app. left. auto.
      * rewrite app_length, Nat2Z.inj_add, F. cbn [length]. lia.
  - destruct L as [D E F]. constructor; auto.
    intros x ad' Hg Hs. destruct (E x ad' Hg Hs) as [E1 E2]. split; [|exact E2].
    intros Hd. specialize (E1 Hd). cbn [app] in E1. destruct E1 as [E1|E1]; [|exact E1]. congruence.
Qed.

Lemma invL_ext : forall s s' l,
  w_pending s' = w_pending s -> w_tracked s' = w_tracked s -> w_dq s' = w_dq s ->
  w_flying s' = w_flying s -> w_inflight s' = w_inflight s -> InvL s l -> InvL s' l.
Proof.
  intros s s' l Ep Et Eq Ef Ei [D E F]. constructor; unfold PT, tget in *.
  - rewrite Ep, Et. exact D.
  - rewrite Et, Eq, Ef. exact E.
  - rewrite Ei, Ef. exact F.
Qed.

Lemma schedule_invL : forall s l, InvL s l -> InvL (schedule s) l.
Proof.
  intros s l L. destruct (schedule_same s) as [A [_ [_ [B [C [_ [D [E _]]]]]]]].
  eapply invL_ext; eauto.
Qed.

Lemma on_timer_invL : forall s bo bestl, InvL s [] -> InvL (on_timer s bo bestl) [].
Proof.
  intros s bo bestl L. unfold on_timer. destruct (next_batch (w_dq s)) as [batch rest] eqn:En.
  apply next_batch_app in En. apply schedule_invL, batch_loop_invL.
  destruct L as [D E F]. constructor; wprj; auto.
  intros x ad Hg Hs. destruct (E x ad Hg Hs) as [E1 E2]. split; [|exact E2].
  intros Hd. specialize (E1 Hd). cbn [app] in E1. rewrite En in E1. unfold keys in *.
  rewrite map_app in E1. exact E1.
Qed.

Lemma on_result_invL : forall s a r bestl, InvL s [] -> In a (w_flying s) ->
  InvL (on_result s a r bestl) [].
Proof.
  intros s a r bestl L Hf. unfold on_result. destruct (tget a s) as [ad|] eqn:Et.
  - (* common part: the state after dialsInFlight-- with any new entry for a *)
    assert (Pre : forall ad',
      let s2 := tput a ad' (set_flying (set_inflight s (w_inflight s - 1)) (remove1 a (w_flying s))) in
      (forall pr, In pr (w_pending s2) -> pr_addrs pr <> [] /\ forall x, In x (pr_addrs pr) -> x <> a -> PT s2 x) /\
      (forall x ad0, x <> a -> tget x s2 = Some ad0 -> ad_st ad0 = DPending ->
         (ad_dialed ad0 = false -> In x ([] ++ keys (w_dq s2))) /\
         (ad_dialed ad0 = true -> In x (w_flying s2))) /\
      w_inflight s2 = Z.of_nat (length (w_flying s2))).
    { intros ad' s2. destruct L as [D E F]. unfold s2. split; [|split].
      - intros pr Hin. wprj. destruct (D _ Hin) as [A B]. split; [exact A|].
        intros x Hx N. destruct (B _ Hx) as [ad0 [G1 G2]]. exists ad0. split; [|exact G2]. tg.
        destruct (a =? x) eqn:Ea; [apply Z.eqb_eq in Ea; congruence | exact G1].
      - intros x ad0 N Hg Hs. tgin Hg. destruct (a =? x) eqn:Ea; [apply Z.eqb_eq in Ea; congruence|].
        destruct (E x ad0 Hg Hs) as [E1 E2]. split; [exact E1|].
        intros Hd. apply remove1_In_other; auto.
      - wprj. rewrite remove1_length by exact Hf. lia. }
    destruct r as [addok|e|pub now].
    + destruct addok.
      * destruct (Pre (ad_set_upg ad None)) as [D2 [E2 F2]].
        set (s2 := tput a (ad_set_upg ad None) (set_flying (set_inflight s (w_inflight s - 1)) (remove1 a (w_flying s)))) in *.
        destruct (succ_loop a (w_pending s2)) as [keep out] eqn:El.
        pose proof (succ_loop_keep _ _ _ _ El) as K.
        constructor.
        -- intros pr Hin. wprj. destruct (K _ Hin) as [K1 K2]. destruct (D2 _ K1) as [A B]. split; [exact A|].
           intros x Hx. assert (N : x <> a) by (intros ->; contradiction).
           destruct (B _ Hx N) as [ad0 [G1 G2]]. exists ad0. split; [|exact G2]. tg.
           destruct (a =? x) eqn:Ea; [apply Z.eqb_eq in Ea; congruence | exact G1].
        -- intros x ad0 Hg Hs. tgin Hg. destruct (a =? x) eqn:Ea.
           ++ inversion Hg; subst. cbn in Hs. discriminate.
           ++ apply Z.eqb_neq in Ea. apply (E2 x ad0); auto.
        -- wprj. exact F2.
      * destruct (Pre (ad_set_upg ad None)) as [D2 [E2 F2]]. apply dispatch_error_invL; auto.
    + destruct (Pre (ad_set_upg ad None)) as [D2 [E2 F2]]. apply schedule_invL, dispatch_error_invL; auto.
    + apply schedule_invL. destruct pub; [|exact L].
      destruct L as [D E F]. constructor; wprj; auto.
      * intros pr Hin. destruct (D _ Hin) as [A B]. split; [exact A|].
        intros x Hx. destruct (B _ Hx) as [ad0 [G1 G2]]. unfold PT, tget in *; wprj. rewrite aget_aput.
        destruct (a =? x) eqn:Ea.
        -- apply Z.eqb_eq in Ea. subst x. rewrite Et in G1. inversion G1; subst.
           eexists. split; [reflexivity | exact G2].
        -- exists ad0. split; assumption.
      * intros x ad0 Hg Hs. tgin Hg. destruct (a =? x) eqn:Ea.
        -- apply Z.eqb_eq in Ea. subst x. inversion Hg; subst. cbn [ad_st ad_set_upg ad_dialed] in *.
           apply (E a ad); auto.
        -- apply (E x ad0); auto.
  - destruct L as [D E F]. constructor; wprj; auto.
    + intros x ad0 Hg Hs. destruct (E x ad0 Hg Hs) as [E1 E2]. split; [exact E1|].
      intros Hd. apply remove1_In_other; auto. intros ->. unfold tget in *. wprj. congruence.
    + rewrite remove1_length by exact Hf. lia.
Qed.

(* ---- a request ---- *)
Lemma nodupz_In : forall x l, In x (nodupz l) <-> In x l.
Proof.
  induction l as [|y l IH]; cbn [nodupz]; [tauto|].
  destruct (memz y l) eqn:E.
  - rewrite IH. cbn. split; [tauto|]. intros [H|H]; [subst; apply memz_In, E | exact H].
  - cbn. rewrite IH. tauto.
Qed.

Lemma removeall_In : forall xs l x, In x (removeall xs l) <-> In x l /\ ~ In x xs.
Proof.
  induction xs as [|y xs IH]; intros l x; cbn [removeall].
  - cbn. tauto.
  - rewrite IH, removez_In. cbn. split.
    + intros [[A B] C]. split; [exact A|]. intros [H|H]; [congruence | contradiction].
    + intros [A B]. repeat split; auto.
Qed.

Lemma scan_spec : forall s rk td tj ed td' tj' ed',
  scan s rk td tj ed = ScanDone td' tj' ed' ->
  (forall a, In a td' -> In a td \/ (In a (map fst rk) /\ tget a s = None)) /\
  (forall a, In a tj' -> In a tj \/ (In a (map fst rk) /\ PT s a)) /\
  (forall a, In a ed' -> In a ed \/ (exists ad, tget a s = Some ad /\ ad_st ad = DErr)) /\
  (forall a, In a (map fst rk) -> In a td' \/ In a tj' \/ In a ed') /\
  (incl td td' /\ incl tj tj' /\ incl ed ed').
Proof.
  induction rk as [|[a d] r IH]; intros td tj ed td' tj' ed' H; cbn [scan] in H.
  - inversion H; subst. repeat split; auto using incl_refl. intros a [].
  - destruct (tget a s) as [ad|] eqn:Et.
    + destruct (ad_st ad) eqn:Es; [|discriminate|].
      * destruct (IH _ _ _ _ _ _ H) as [A [B [C [D [I1 [I2 I3]]]]]]. repeat split; auto.
        -- intros x Hx. destruct (A x Hx) as [G|[G1 G2]]; [left; exact G | right; split; [right; exact G1 | exact G2]].
        -- intros x Hx. destruct (B x Hx) as [G|[G1 G2]].
           ++ apply in_app_or in G. destruct G as [G|[G|[]]]; [left; exact G|]. subst x.
              right. split; [left; reflexivity|]. exists ad. split; assumption.
           ++ right. split; [right; exact G1 | exact G2].
        -- intros x [Hx|Hx]; [|apply D, Hx]. cbn [fst] in Hx. subst x. right. left.
           apply I2, in_or_app. right. left. reflexivity.
        -- intros x Hx. apply I2, in_or_app. left. exact Hx.
      * destruct (IH _ _ _ _ _ _ H) as [A [B [C [D [I1 [I2 I3]]]]]]. repeat split; auto.
        -- intros x Hx. destruct (A x Hx) as [G|[G1 G2]]; [left; exact G | right; split; [right; exact G1 | exact G2]].
        -- intros x Hx. destruct (B x Hx) as [G|[G1 G2]]; [left; exact G | right; split; [right; exact G1 | exact G2]].
        -- intros x Hx. destruct (C x Hx) as [G|G]; [|right; exact G].
           apply in_app_or in G. destruct G as [G|[G|[]]]; [left; exact G|]. subst x.
           right. exists ad. split; assumption.
        -- intros x [Hx|Hx]; [|apply D, Hx]. cbn [fst] in Hx. subst x. right. right.
           apply I3, in_or_app. right. left. reflexivity.
        -- intros x Hx. apply I3, in_or_app. left. exact Hx.
    + destruct (IH _ _ _ _ _ _ H) as [A [B [C [D [I1 [I2 I3]]]]]]. repeat split; auto.
      * intros x Hx. destruct (A x Hx) as [G|[G1 G2]].
        -- apply in_app_or in G. destruct G as [G|[G|[]]]; [left; exact G|]. subst x.
           right. split; [left; reflexivity | exact Et].
        -- right. split; [right; exact G1 | exact G2].
      * intros x Hx. destruct (B x Hx) as [G|[G1 G2]]; [left; exact G | right; split; [right; exact G1 | exact G2]].
      * intros x [Hx|Hx]; [|apply D, Hx]. cbn [fst] in Hx. subst x. left.
        apply I1, in_or_app. right. left. reflexivity.
      * intros x Hx. apply I1, in_or_app. left. exact Hx.
Qed.

(* the part of the invariant that does not mention pending requests *)
Definition InvEF (s : wst) : Prop :=
  (forall x ad, tget x s = Some ad -> ad_st ad = DPending ->
     (ad_dialed ad = false -> In x (keys (w_dq s))) /\ (ad_dialed ad = true -> In x (w_flying s))) /\
  w_inflight s = Z.of_nat (length (w_flying s)).

Lemma join_loop_EF : forall sim rk tj s, InvEF s ->
  InvEF (join_loop sim rk tj s) /\ (forall x, PT s x -> PT (join_loop sim rk tj s) x).
Proof.
  induction tj as [|a r IH]; intros s EF; cbn [join_loop]; [split; auto|].
  destruct (tget a s) as [ad|] eqn:Et; [|apply IH, EF].
  destruct (negb (ad_dialed ad) && sim && negb (ad_sim ad)) eqn:Ec; [|apply IH, EF].
  apply andb_true_iff in Ec. destruct Ec as [Ec _]. apply andb_true_iff in Ec. destruct Ec as [Ec _].
  apply negb_true_iff in Ec.
  set (s' := set_dq (tput a (ad_set_sim ad) s) (dq_update_or_add a (delay_of a rk) (w_dq s))).
  assert (EF' : InvEF s').
  { destruct EF as [E F]. split; unfold s'; wprj; [|exact F].
    intros x ad0 Hg Hs. tgin Hg. destruct (a =? x) eqn:Ea.
    - apply Z.eqb_eq in Ea. subst x. inversion Hg; subst. cbn [ad_dialed ad_st ad_set_sim] in *.
      destruct (E a ad Et Hs) as [E1 E2]. split; [|exact E2]. intros Hd. apply dq_uoa_mono, E1, Hd.
    - destruct (E x ad0 Hg Hs) as [E1 E2]. split; [|exact E2]. intros Hd. apply dq_uoa_mono, E1, Hd. }
  destruct (IH s' EF') as [A B]. split; [exact A|].
  intros x [ad0 [G1 G2]]. apply B. unfold PT, s', tget in *; wprj. rewrite aget_aput.
  destruct (a =? x) eqn:Ea.
  - apply Z.eqb_eq in Ea. subst x. rewrite Et in G1. inversion G1; subst. eexists. split; [reflexivity | exact G2].
  - exists ad0. split; assumption.
Qed.

Lemma todial_loop_EF : forall sim fdir rk td s, InvEF s ->
  InvEF (todial_loop sim fdir rk td s) /\
  (forall x, PT s x -> PT (todial_loop sim fdir rk td s) x) /\
  (forall a, In a td -> PT (todial_loop sim fdir rk td s) a).
Proof.
  induction td as [|a r IH]; intros s EF; cbn [todial_loop]; [split; [exact EF|split; [auto|intros a []]]|].
  set (s1 := tput a (mkAd false DPending fdir sim None) s).
  set (s3 := set_asked (set_dq s1 (dq_add (a, delay_of a rk) (w_dq s1)))
                       (w_asked (set_dq s1 (dq_add (a, delay_of a rk) (w_dq s1))) ++ [a])).
  assert (EF' : InvEF s3).
  { destruct EF as [E F]. split; unfold s3, s1; wprj; [|exact F].
    intros x ad0 Hg Hs. tgin Hg. destruct (a =? x) eqn:Ea.
    - apply Z.eqb_eq in Ea. subst x. inversion Hg; subst. cbn [ad_dialed]. split; [|discriminate].
      intros _. apply dq_add_keys. left. reflexivity.
    - destruct (E x ad0 Hg Hs) as [E1 E2]. split; [|exact E2]. intros Hd. apply dq_add_keys. right. apply E1, Hd. }
  assert (M : forall x, PT s x -> PT s3 x).
  { intros x [ad0 [G1 G2]]. unfold PT, s3, s1, tget in *; wprj. rewrite aget_aput. destruct (a =? x).
    - eexists. split; reflexivity.
    - exists ad0. split; assumption. }
  assert (Pa : PT s3 a).
  { unfold PT, s3, s1, tget; wprj. rewrite aget_aput, Z.eqb_refl. eexists. split; reflexivity. }
  destruct (IH s3 EF') as [A [B C]]. split; [exact A|]. split.
  - intros x Hx. apply B, M, Hx.
  - intros x [Hx|Hx]; [subst x; apply B, Pa | apply C, Hx].
Qed.

Lemma on_request_invL : forall s rid sim fdir best rank, InvL s [] ->
  InvL (on_request s rid sim fdir best rank) [].
Proof.
  intros s rid sim fdir best rank L. unfold on_request.
  set (s0 := set_seen s (w_seen s ++ [rid])).
  assert (L0 : InvL s0 []) by (eapply invL_ext; [..|exact L]; reflexivity).
  assert (R : forall r, InvL (respond s0 rid r) []) by (intros r; eapply invL_ext; [..|exact L0]; reflexivity).
  destruct best; [apply R|]. destruct rank as [rk|]; [|apply R].
  destruct (scan s0 rk [] [] []) as [|td tj ed] eqn:Es; [apply R|].
  destruct (scan_spec _ _ _ _ _ _ _ _ Es) as [A [B [C [D _]]]].
  set (pr := mkPr rid (removeall ed (nodupz (map fst rk)))).
  set (s1 := set_pending s0 (w_pending s0 ++ [pr])).
  assert (G : td <> [] \/ tj <> [] ->
              InvL (schedule (todial_loop sim fdir rk td (join_loop sim rk tj s1))) []).
  { intros Hne. apply schedule_invL.
    assert (EF1 : InvEF s1).
    { destruct L0 as [_ E F]. split; [|exact F]. intros x ad Hg Hs. apply (E x ad Hg Hs). }
    destruct (join_loop_EF sim rk tj s1 EF1) as [EF2 M2].
    destruct (todial_loop_EF sim fdir rk td _ EF2) as [[E3 F3] [M3 P3]].
    assert (PT01 : forall x, PT s0 x -> PT s1 x) by (intros x H; exact H).
    constructor; [| |exact F3].
    - intros p Hin.
      destruct (todial_loop_same sim fdir rk td (join_loop sim rk tj s1)) as [Ep _]. rewrite Ep in Hin.
      destruct (join_loop_same sim rk tj s1) as [Ep' _]. rewrite Ep' in Hin.
      unfold s1 in Hin. wprj. apply in_app_or in Hin. destruct Hin as [Hin|[Hin|[]]].
      + destruct L0 as [D0 _ _]. destruct (D0 _ Hin) as [N X]. split; [exact N|].
        intros a Ha. apply M3, M2, PT01, X, Ha.
      + subst p. unfold pr. cbn [pr_addrs].
        assert (Good : forall a, In a td \/ In a tj -> In a (removeall ed (nodupz (map fst rk)))).
        { intros a Ha. apply removeall_In. split.
          - apply nodupz_In. destruct Ha as [Ha|Ha].
            + destruct (A a Ha) as [[]|[G _]]. exact G.
            + destruct (B a Ha) as [[]|[G _]]. exact G.
          - intros He. destruct (C a He) as [[]|[ad [G1 G2]]]. destruct Ha as [Ha|Ha].
            + destruct (A a Ha) as [[]|[_ G]]. congruence.
            + destruct (B a Ha) as [[]|[_ [ad' [G3 G4]]]]. congruence. }
        split.
        * destruct Hne as [Hne|Hne].
          -- destruct td as [|a td']; [congruence|]. intros Hn.
             assert (X : In a (removeall ed (nodupz (map fst rk)))) by (apply Good; left; left; reflexivity).
             rewrite Hn in X. destruct X.
          -- destruct tj as [|a tj']; [congruence|]. intros Hn.
             assert (X : In a (removeall ed (nodupz (map fst rk)))) by (apply Good; right; left; reflexivity).
             rewrite Hn in X. destruct X.
        * intros a Ha. apply removeall_In in Ha. destruct Ha as [Ha Hne'].
          apply (proj1 (nodupz_In _ _)) in Ha. destruct (D a Ha) as [G|[G|G]]; [| |contradiction].
          -- apply P3, G.
          -- destruct (B a G) as [[]|[_ G2]]. apply M3, M2, PT01, G2.
    - intros x ad Hg Hs. cbn [app]. apply (E3 x ad Hg Hs). }
  destruct td as [|t0 td0]; destruct tj as [|j0 tj0].
  - apply R.
  - apply G. right. discriminate.
  - apply G. left. discriminate.
  - apply G. left. discriminate.
Qed.

Lemma wstep_invL : forall s e, InvL s [] -> (w_stopped s = false -> wf_ev s e) -> InvL (wstep s e) [].
Proof.
  intros s e L W. unfold wstep. destruct (w_stopped s) eqn:St; [exact L|]. specialize (W eq_refl).
  destruct e as [rid sim fdir best rank|bo bestl|a r bestl|].
  - apply on_request_invL, L.
  - apply on_timer_invL, L.
  - destruct W as [W _]. apply on_result_invL; auto.
  - eapply invL_ext; [..|exact L]; reflexivity.
Qed.

Lemma init_invL : InvL init_w [].
Proof.
  constructor; cbn.
  - intros pr [].
  - intros x ad H. discriminate.
  - reflexivity.
Qed.

Lemma wrun_invL : forall evs s, InvL s [] -> wf_run s evs -> InvL (wrun s evs) [].
Proof.
  induction evs as [|e r IH]; intros s A W; cbn [wrun fold_left]; [exact A|].
  destruct W as [W1 W2]. apply IH; [apply wstep_invL; auto | exact W2].
Qed.

Lemma quiescence_l : forall evs, wf_run init_w evs ->
  let s := wrun init_w evs in
  w_dq s = [] -> w_inflight s = 0 -> w_pending s = [].
Proof.
  intros evs W s Hq Hi. destruct (wrun_invL evs init_w init_invL W) as [D E F]. fold s in D, E, F.
  destruct (w_pending s) as [|pr rest] eqn:Ep; [reflexivity|]. exfalso.
  destruct (D pr (or_introl eq_refl)) as [N X].
  destruct (pr_addrs pr) as [|a l] eqn:Ea; [congruence|].
  destruct (X a (or_introl eq_refl)) as [ad [G1 G2]].
  destruct (E a ad G1 G2) as [E1 E2]. rewrite Hq in E1. cbn in E1.
  destruct (ad_dialed ad).
  - specialize (E2 eq_refl). rewrite Hi in F. destruct (w_flying s); [destruct E2 | cbn [length] in F; lia].
  - apply E1. reflexivity.
Qed.

(* ---- T3: each address is handed to a transport at most once ------------------------------ *)
Record InvS (s : wst) (limbo : list Z) : Prop := mkInvS {
  sB1 : NoDup (limbo ++ keys (w_dq s));
  sB2 : forall a, In a (limbo ++ keys (w_dq s)) -> exists ad, tget a s = Some ad /\ ad_dialed ad = false;
  sC1 : NoDup (w_dials s);
  sC2 : forall a, In a (w_dials s) -> exists ad, tget a s = Some ad /\ ad_dialed ad = true }.

Lemma invS_ext : forall s s' l,
  w_tracked s' = w_tracked s -> w_dq s' = w_dq s -> w_dials s' = w_dials s -> InvS s l -> InvS s' l.
Proof.
  intros s s' l Et Eq Ed [B1 B2 C1 C2]. constructor; unfold tget in *; rewrite ?Et, ?Eq, ?Ed; auto.
Qed.

Lemma dq_add_perm : forall y q, Permutation (keys (dq_add y q)) (fst y :: keys q).
Proof.
  induction q as [|z r IH]; cbn [dq_add]; [apply Permutation_refl|].
  destruct (existsb _ (z :: r)); [|apply Permutation_refl].
  cbn [keys map]. eapply Permutation_trans; [apply perm_skip, IH|]. apply perm_swap.
Qed.

Lemma dq_scan_nodup : forall a d n q, (length q <= n)%nat -> forall q', dq_scan a d q = Some q' ->
  NoDup (keys q) -> NoDup (keys q') /\ ~ In a (keys q').
Proof.
  induction n as [|n IH]; intros q Hl q' H N.
  - destruct q; [|cbn in Hl; lia]. cbn in H. inversion H; subst. split; [constructor | intros []].
  - destruct q as [|y r]; [cbn in H; inversion H; subst; split; [constructor | intros []]|].
    cbn [dq_scan] in H. cbn [length] in Hl. cbn [keys map] in N. inversion N as [|? ? Ny Nr]; subst.
    destruct (fst y =? a) eqn:Ey.
    + apply Z.eqb_eq in Ey. destruct (snd y =? d); [discriminate|].
      destruct r as [|z r'].
      * inversion H; subst. split; [constructor | intros []].
      * destruct (dq_scan a d r') as [q2|] eqn:E2; [|discriminate]. cbn [option_map] in H.
        inversion H; subst. cbn [length] in Hl. cbn [keys map] in Nr, Ny.
        inversion Nr as [|? ? Nz Nr']; subst.
        destruct (IH r' ltac:(lia) _ E2 Nr') as [A B].
        pose proof (proj2 (dq_scan_keys (fst y) d _ r' (le_n _) _ E2)) as Sub.
        split.
        -- cbn [keys map]. constructor; [|exact A]. intros Hin. apply Nz, Sub, Hin.
        -- cbn [keys map In]. intros [Hin|Hin]; [apply Ny; left; auto | exact (B Hin)].
    + destruct (dq_scan a d r) as [q2|] eqn:E2; [|discriminate]. cbn [option_map] in H.
      inversion H; subst. destruct (IH r ltac:(lia) _ E2 Nr) as [A B].
      pose proof (proj2 (dq_scan_keys a d _ r (le_n _) _ E2)) as Sub. split.
      * cbn [keys map]. constructor; [|exact A]. intros Hin. apply Ny, Sub, Hin.
      * cbn [keys map In]. intros [Hin|Hin]; [apply Z.eqb_neq in Ey; congruence | exact (B Hin)].
Qed.

Lemma dq_uoa_nodup : forall a d q, NoDup (keys q) -> NoDup (keys (dq_update_or_add a d q)).
Proof.
  intros a d q N. unfold dq_update_or_add. destruct (dq_scan a d q) as [q'|] eqn:E; [|exact N].
  destruct (dq_scan_nodup a d _ q (le_n _) _ E N) as [A B].
  eapply Permutation_NoDup; [apply Permutation_sym, dq_add_perm|]. cbn [fst]. constructor; assumption.
Qed.

Lemma dispatch_error_invS : forall s a e bestl limbo, InvS s limbo ->
  (e = EBackoff -> ~ In a (w_dials s) /\ ~ In a (limbo ++ keys (w_dq s))) ->
  InvS (dispatch_error s a e bestl) limbo.
Proof.
  intros s a e bestl limbo S Hb. unfold dispatch_error.
  set (s1 := match tget a s with Some ad => tput a (ad_set_st ad DErr) s | None => s end).
  assert (S1 : InvS s1 limbo).
  { unfold s1. destruct (tget a s) as [ad|] eqn:Et; [|exact S].
    destruct S as [B1 B2 C1 C2]. constructor; wprj; auto.
    - intros x Hx. destruct (B2 x Hx) as [ad0 [G1 G2]]. tg. destruct (a =? x) eqn:Ea.
      + apply Z.eqb_eq in Ea. subst x. rewrite Et in G1. inversion G1; subst. eexists. split; [reflexivity|exact G2].
      + exists ad0. split; assumption.
    - intros x Hx. destruct (C2 x Hx) as [ad0 [G1 G2]]. tg. destruct (a =? x) eqn:Ea.
      + apply Z.eqb_eq in Ea. subst x. rewrite Et in G1. inversion G1; subst. eexists. split; [reflexivity|exact G2].
      + exists ad0. split; assumption. }
  assert (Q1 : w_dq s1 = w_dq s /\ w_dials s1 = w_dials s) by (unfold s1; destruct (tget a s); split; reflexivity).
  destruct Q1 as [Q1 Q2].
  destruct (disp_loop a bestl (w_pending s1)) as [keep out].
  set (s2 := set_resps (set_pending s1 keep) (w_resps s1 ++ out)).
  assert (S2 : InvS s2 limbo) by (eapply invS_ext; [..|exact S1]; reflexivity).
  destruct e; try exact S2.
  destruct (Hb eq_refl) as [Hd Hq]. destruct S2 as [B1 B2 C1 C2]. unfold s2 in *.
  constructor; wprj; auto.
  - intros x Hx. destruct (B2 x Hx) as [ad0 [G1 G2]]. tg. destruct (a =? x) eqn:Ea.
    + apply Z.eqb_eq in Ea. subst x. rewrite Q1 in Hx. contradiction.
    + exists ad0. split; assumption.
  - intros x Hx. destruct (C2 x Hx) as [ad0 [G1 G2]]. tg. destruct (a =? x) eqn:Ea.
    + apply Z.eqb_eq in Ea. subst x. rewrite Q2 in Hx. contradiction.
    + exists ad0. split; assumption.
Qed.

Lemma batch_loop_invS : forall bo bestl batch s,
  InvS s (keys batch) -> InvS (batch_loop bo bestl batch s) [].
Proof.
  induction batch as [|[a d] r IH]; intros s S; cbn [batch_loop]; [exact S|].
  apply IH. cbn [keys map fst] in S. fold (keys r) in S.
  destruct S as [B1 B2 C1 C2]. cbn [app] in B1, B2. inversion B1 as [|? ? Na Nr]; subst.
  destruct (tget a s) as [ad|] eqn:Et.
  - destruct (B2 a (or_introl eq_refl)) as [ad0 [G1 G2]]. rewrite Et in G1. inversion G1; subst ad0.
    assert (Nd : ~ In a (w_dials s)).
    { intros Hin. destruct (C2 a Hin) as [ad1 [H1 H2]]. rewrite Et in H1. inversion H1; subst. congruence. }
    assert (S1 : forall s1, w_tracked s1 = aput a (Some (ad_set_dialed ad)) (w_tracked s) ->
                 w_dq s1 = w_dq s -> w_dials s1 = w_dials s -> InvS s1 (keys r)).
    { intros s1 T Q Dl. constructor; unfold tget; rewrite ?T, ?Q, ?Dl; auto.
      - intros x Hx. rewrite aget_aput. destruct (a =? x) eqn:Ea.
        + apply Z.eqb_eq in Ea. subst x. contradiction.
        + apply B2. right. exact Hx.
      - intros x Hx. rewrite aget_aput. destruct (a =? x) eqn:Ea.
        + apply Z.eqb_eq in Ea. subst x. contradiction.
        + apply C2, Hx. }
    destruct (negb (ad_fdir ad) && memz a bo).
    + apply dispatch_error_invS.
      * apply S1; reflexivity.
      * intros _. wprj. split; assumption.
    + specialize (S1 (tput a (ad_set_dialed ad) s) eq_refl eq_refl eq_refl).
      destruct S1 as [B1' B2' C1' C2']. constructor; wprj; auto.
      * apply NoDup_snoc; assumption.
      * intros x Hx. apply in_app_or in Hx. destruct Hx as [Hx|[Hx|[]]].
        -- apply C2', Hx.
        -- subst x. tg. rewrite Z.eqb_refl. eexists. split; reflexivity.
  - constructor; auto. intros x Hx. apply B2. right. exact Hx.
Qed.

Lemma on_timer_invS : forall s bo bestl, InvS s [] -> InvS (on_timer s bo bestl) [].
Proof.
  intros s bo bestl S. unfold on_timer. destruct (next_batch (w_dq s)) as [batch rest] eqn:En.
  apply next_batch_app in En.
  match goal with |- InvS (schedule ?x) [] => destruct (schedule_same x) as [_ [_ [_ [A [B [C _]]]]]] end.
  eapply invS_ext; [exact A|exact B|exact C|]. apply batch_loop_invS.
  destruct S as [B1 B2 C1 C2]. cbn [app] in B1, B2. rewrite En in B1, B2. unfold keys in *. rewrite map_app in B1, B2.
  constructor; wprj; auto.
Qed.

Lemma tput_same_dialed_invS : forall s a ad ad', InvS s [] -> tget a s = Some ad ->
  ad_dialed ad' = ad_dialed ad -> InvS (tput a ad' s) [].
Proof.
  intros s a ad ad' [B1 B2 C1 C2] Et Ed. constructor; wprj; auto.
  - intros x Hx. destruct (B2 x Hx) as [ad0 [G1 G2]]. tg. destruct (a =? x) eqn:Ea.
    + apply Z.eqb_eq in Ea. subst x. rewrite Et in G1. inversion G1; subst. eexists. split; [reflexivity|congruence].
    + exists ad0. split; assumption.
  - intros x Hx. destruct (C2 x Hx) as [ad0 [G1 G2]]. tg. destruct (a =? x) eqn:Ea.
    + apply Z.eqb_eq in Ea. subst x. rewrite Et in G1. inversion G1; subst. eexists. split; [reflexivity|congruence].
    + exists ad0. split; assumption.
Qed.

Lemma on_result_invS : forall s a r bestl, InvS s [] -> r <> DRFail EBackoff ->
  InvS (on_result s a r bestl) [].
Proof.
  intros s a r bestl S Hr. unfold on_result. destruct (tget a s) as [ad|] eqn:Et.
  - assert (S2 : forall ad', ad_dialed ad' = ad_dialed ad ->
        InvS (tput a ad' (set_flying (set_inflight s (w_inflight s - 1)) (remove1 a (w_flying s)))) []).
    { intros ad' Hd. eapply (tput_same_dialed_invS _ a ad); [|exact Et|exact Hd].
      eapply invS_ext; [..|exact S]; reflexivity. }
    destruct r as [addok|e|pub now].
    + destruct addok.
      * match goal with |- context [succ_loop a ?p] => destruct (succ_loop a p) as [keep out] end.
        eapply invS_ext; [| | |eapply (tput_same_dialed_invS _ a (ad_set_upg ad None) (ad_set_st (ad_set_upg ad None) DConn));
                               [apply (S2 (ad_set_upg ad None)); reflexivity| |reflexivity]]; try reflexivity.
        tg. rewrite Z.eqb_refl. reflexivity.
      * apply dispatch_error_invS; [apply S2; reflexivity | discriminate].
    + match goal with |- InvS (schedule ?x) [] => destruct (schedule_same x) as [_ [_ [_ [A [B [C _]]]]]] end.
      eapply invS_ext; [exact A|exact B|exact C|].
      apply dispatch_error_invS; [apply S2; reflexivity | intros ->; congruence].
    + match goal with |- InvS (schedule ?x) [] => destruct (schedule_same x) as [_ [_ [_ [A [B [C _]]]]]] end.
      eapply invS_ext; [exact A|exact B|exact C|].
      destruct pub; [|exact S]. eapply (tput_same_dialed_invS _ a ad); eauto.
  - eapply invS_ext; [..|exact S]; reflexivity.
Qed.

Lemma join_loop_none : forall sim rk tj s x, tget x s = None -> tget x (join_loop sim rk tj s) = None.
Proof.
  induction tj as [|a r IH]; intros s x H; cbn [join_loop]; [exact H|]. apply IH.
  destruct (tget a s) as [ad|] eqn:Et; [|exact H].
  destruct (negb (ad_dialed ad) && sim && negb (ad_sim ad)); [|exact H].
  tg. destruct (a =? x) eqn:Ea; [apply Z.eqb_eq in Ea; subst; congruence | exact H].
Qed.

Lemma join_loop_invS : forall sim rk tj s, InvS s [] -> InvS (join_loop sim rk tj s) [].
Proof.
  induction tj as [|a r IH]; intros s S; cbn [join_loop]; [exact S|]. apply IH.
  destruct (tget a s) as [ad|] eqn:Et; [|exact S].
  destruct (negb (ad_dialed ad) && sim && negb (ad_sim ad)) eqn:Ec; [|exact S].
  apply andb_true_iff in Ec. destruct Ec as [Ec _]. apply andb_true_iff in Ec. destruct Ec as [Ec _].
  apply negb_true_iff in Ec.
  pose proof (tput_same_dialed_invS s a ad (ad_set_sim ad) S Et eq_refl) as [B1 B2 C1 C2].
  constructor; wprj; auto; cbn [app] in *.
  - apply dq_uoa_nodup, B1.
  - intros x Hx. apply dq_uoa_keys in Hx. destruct Hx as [Hx|Hx]; [|apply B2, Hx].
    subst x. tg. rewrite Z.eqb_refl. eexists. split; [reflexivity | exact Ec].
Qed.

Lemma todial_loop_invS : forall sim fdir rk td s, NoDup td -> (forall a, In a td -> tget a s = None) ->
  InvS s [] -> InvS (todial_loop sim fdir rk td s) [].
Proof.
  induction td as [|a r IH]; intros s N U S; cbn [todial_loop]; [exact S|].
  inversion N as [|? ? Na Nr]; subst. apply IH; [exact Nr| |].
  - intros b Hb. tg. destruct (a =? b) eqn:Ea; [apply Z.eqb_eq in Ea; subst; contradiction|].
    apply U. right. exact Hb.
  - pose proof (U a (or_introl eq_refl)) as Ua. destruct S as [B1 B2 C1 C2]. cbn [app] in *.
    assert (Nq : ~ In a (keys (w_dq s))).
    { intros Hin. destruct (B2 a Hin) as [ad [G _]]. congruence. }
    constructor; wprj; cbn [app]; auto.
    + eapply Permutation_NoDup; [apply Permutation_sym, dq_add_perm|]. cbn [fst]. constructor; assumption.
    + intros x Hx. apply dq_add_keys in Hx. cbn [fst] in Hx. tg. destruct Hx as [Hx|Hx].
      * subst x. rewrite Z.eqb_refl. eexists. split; reflexivity.
      * destruct (a =? x) eqn:Ea; [apply Z.eqb_eq in Ea; subst; contradiction | apply B2, Hx].
    + intros x Hx. tg. destruct (a =? x) eqn:Ea; [|apply C2, Hx].
      apply Z.eqb_eq in Ea. subst x. destruct (C2 a Hx) as [ad [G _]]. congruence.
Qed.

Lemma scan_td_nodup : forall s rk td tj ed td' tj' ed',
  scan s rk td tj ed = ScanDone td' tj' ed' ->
  NoDup (map fst rk) -> NoDup td -> (forall a, In a td -> ~ In a (map fst rk)) -> NoDup td'.
Proof.
  induction rk as [|[a d] r IH]; intros td tj ed td' tj' ed' H Nr Nt Dj; cbn [scan] in H.
  - inversion H; subst. exact Nt.
  - cbn [map fst] in Nr. inversion Nr as [|? ? Na Nr']; subst.
    destruct (tget a s) as [ad|].
    + destruct (ad_st ad); [|discriminate|]; eapply IH; eauto;
        intros x Hx Hin; apply (Dj x Hx); right; exact Hin.
    + eapply IH; eauto.
      * apply NoDup_snoc; auto. intros Hin. apply (Dj a Hin). left. reflexivity.
      * intros x Hx Hin. apply in_app_or in Hx. destruct Hx as [Hx|[Hx|[]]].
        -- apply (Dj x Hx). right. exact Hin.
        -- subst x. contradiction.
Qed.

Lemma on_request_invS : forall s rid sim fdir best rank, InvS s [] ->
  match rank with Some rk => NoDup (map fst rk) | None => True end ->
  InvS (on_request s rid sim fdir best rank) [].
Proof.
  intros s rid sim fdir best rank S Hn. unfold on_request.
  set (s0 := set_seen s (w_seen s ++ [rid])).
  assert (S0 : InvS s0 []) by (eapply invS_ext; [..|exact S]; reflexivity).
  assert (R : forall r, InvS (respond s0 rid r) []) by (intros r; eapply invS_ext; [..|exact S0]; reflexivity).
  destruct best; [apply R|]. destruct rank as [rk|]; [|apply R].
  destruct (scan s0 rk [] [] []) as [|td tj ed] eqn:Es; [apply R|].
  destruct (scan_spec _ _ _ _ _ _ _ _ Es) as [A _].
  pose proof (scan_td_nodup _ _ _ _ _ _ _ _ Es Hn (NoDup_nil _) (fun a (H : In a []) => match H with end)) as Ntd.
  set (s1 := set_pending s0 (w_pending s0 ++ [mkPr rid (removeall ed (nodupz (map fst rk)))])).
  assert (G : InvS (schedule (todial_loop sim fdir rk td (join_loop sim rk tj s1))) []).
  { match goal with |- InvS (schedule ?x) [] => destruct (schedule_same x) as [_ [_ [_ [E1 [E2 [E3 _]]]]]] end.
    eapply invS_ext; [exact E1|exact E2|exact E3|].
    apply todial_loop_invS; [exact Ntd| |].
    - intros a Ha. apply join_loop_none. destruct (A a Ha) as [[]|[_ G]]. exact G.
    - apply join_loop_invS. eapply invS_ext; [..|exact S0]; reflexivity. }
  destruct td; destruct tj; try exact G. apply R.
Qed.

Lemma wstep_invS : forall s e, InvS s [] -> (w_stopped s = false -> wf_ev s e) -> InvS (wstep s e) [].
Proof.
  intros s e S W. unfold wstep. destruct (w_stopped s) eqn:St; [exact S|]. specialize (W eq_refl).
  destruct e as [rid sim fdir best rank|bo bestl|a r bestl|].
  - destruct W as [_ W]. apply on_request_invS; auto.
  - apply on_timer_invS, S.
  - destruct W as [_ W]. apply on_result_invS; auto.
  - eapply invS_ext; [..|exact S]; reflexivity.
Qed.

Lemma init_invS : InvS init_w [].
Proof. constructor; cbn; try constructor; intros a []. Qed.

Lemma wrun_invS : forall evs s, InvS s [] -> wf_run s evs -> InvS (wrun s evs) [].
Proof.
  induction evs as [|e r IH]; intros s A W; cbn [wrun fold_left]; [exact A|].
  destruct W as [W1 W2]. apply IH; [apply wstep_invS; auto | exact W2].
Qed.

Lemma addr_handed_once_l : forall evs, wf_run init_w evs -> NoDup (w_dials (wrun init_w evs)).
Proof. intros evs W. destruct (wrun_invS evs init_w init_invS W). assumption. Qed.

(* every request received has been answered when the worker is quiescent *)
Lemma exactly_once_at_quiescence_l : forall evs, wf_run init_w evs ->
  let s := wrun init_w evs in
  w_dq s = [] -> w_inflight s = 0 ->
  w_pending s = [] /\ forall rid, In rid (w_seen s) -> In rid (map fst (w_resps s)).
Proof.
  intros evs W s Hq Hi. pose proof (quiescence_l evs W Hq Hi) as Hp. fold s in Hp. split; [exact Hp|].
  intros rid H. destruct (wrun_invA evs init_w init_invA W) as [_ _ J]. fold s in J.
  apply J in H. unfold ids in H. rewrite Hp in H. exact H.
Qed.

Lemma resp_count_le_1_l : forall evs, wf_run init_w evs ->
  forall rid, (count_occ Z.eq_dec (map fst (w_resps (wrun init_w evs))) rid <= 1)%nat.
Proof.
  intros evs W. apply NoDup_count_occ. apply response_at_most_once_l, W.
Qed.

(* ---- T4: every address that entered the worker is dialed, refused by back-off, or
        still scheduled ---------------------------------------------------------------- *)
Definition InvG (s : wst) (limbo : list Z) : Prop :=
  forall a, In a (w_asked s) ->
    In a (w_dials s) \/ In a (w_refused s) \/ (In a (limbo ++ keys (w_dq s)) /\ tget a s <> None).

Lemma invG_ext : forall s s' l,
  w_tracked s' = w_tracked s -> w_dq s' = w_dq s -> w_dials s' = w_dials s ->
  w_refused s' = w_refused s -> w_asked s' = w_asked s -> InvG s l -> InvG s' l.
Proof.
  intros s s' l Et Eq Ed Er Ea G a Ha. unfold tget. rewrite Et, Eq, Ed, Er. apply G. rewrite <- Ea. exact Ha.
Qed.

Lemma dispatch_error_invG : forall s a e bestl limbo, InvG s limbo ->
  (e = EBackoff -> In a (w_refused s) \/ In a (w_dials s)) ->
  InvG (dispatch_error s a e bestl) limbo.
Proof.
  intros s a e bestl limbo G Hb. unfold dispatch_error.
  set (s1 := match tget a s with Some ad => tput a (ad_set_st ad DErr) s | None => s end).
  assert (G1 : InvG s1 limbo).
  { unfold s1. destruct (tget a s) as [ad|] eqn:Et; [|exact G].
    intros x Hx. destruct (G x Hx) as [H|[H|[H1 H2]]]; [left; exact H | right; left; exact H|].
    right. right. split; [exact H1|]. tg. destruct (a =? x); [discriminate | exact H2]. }
  assert (Q : w_dials s1 = w_dials s /\ w_refused s1 = w_refused s)
    by (unfold s1; destruct (tget a s); split; reflexivity).
  destruct Q as [Q1 Q2].
  destruct (disp_loop a bestl (w_pending s1)) as [keep out].
  set (s2 := set_resps (set_pending s1 keep) (w_resps s1 ++ out)).
  assert (G2 : InvG s2 limbo) by (eapply invG_ext; [..|exact G1]; reflexivity).
  destruct e; try exact G2.
  intros x Hx. destruct (G2 x Hx) as [H|[H|[H1 H2]]]; [left; exact H | right; left; exact H|].
  destruct (Z.eq_dec x a) as [->|N].
  - destruct (Hb eq_refl) as [H|H]; [right; left | left]; unfold s2; wprj; rewrite ?Q1, ?Q2; exact H.
  - right. right. split; [exact H1|]. tg. destruct (a =? x) eqn:Ea; [apply Z.eqb_eq in Ea; congruence | exact H2].
Qed.

Lemma batch_loop_invG : forall bo bestl batch s,
  InvG s (keys batch) -> InvG (batch_loop bo bestl batch s) [].
Proof.
  induction batch as [|[a d] r IH]; intros s G; cbn [batch_loop]; [exact G|].
  apply IH. cbn [keys map fst] in G. fold (keys r) in G.
  destruct (tget a s) as [ad|] eqn:Et.
  - destruct (negb (ad_fdir ad) && memz a bo).
    + apply dispatch_error_invG; [|intros _; left; wprj; apply in_or_app; right; left; reflexivity].
      intros x Hx. wprj. destruct (G x Hx) as [H|[H|[H1 H2]]].
      * left. exact H.
      * right. left. apply in_or_app. left. exact H.
      * cbn [app] in H1. destruct H1 as [H1|H1].
        -- subst x. right. left. apply in_or_app. right. left. reflexivity.
        -- right. right. split; [exact H1|]. tg. destruct (a =? x); [discriminate | exact H2].
    + intros x Hx. wprj. destruct (G x Hx) as [H|[H|[H1 H2]]].
      * left. apply in_or_app. left. exact H.
      * right. left. exact H.
      * cbn [app] in H1. destruct H1 as [H1|H1].
        -- subst x. left. apply in_or_app. right. left. reflexivity.
        -- right. right. split; [exact H1|]. tg. destruct (a =? x); [discriminate | exact H2].
  - intros x Hx. destruct (G x Hx) as [H|[H|[H1 H2]]]; [left; exact H | right; left; exact H|].
    cbn [app] in H1. destruct H1 as [H1|H1]; [subst x; congruence|]. right. right. split; assumption.
Qed.

Lemma tput_invG : forall s a ad', InvG s [] -> InvG (tput a ad' s) [].
Proof.
  intros s a ad' G x Hx. wprj. destruct (G x Hx) as [H|[H|[H1 H2]]]; [left; exact H | right; left; exact H|].
  right. right. split; [exact H1|]. tg. destruct (a =? x); [discriminate | exact H2].
Qed.

Lemma on_result_invG : forall s a r bestl, InvG s [] -> r <> DRFail EBackoff ->
  InvG (on_result s a r bestl) [].
Proof.
  intros s a r bestl G Hr. unfold on_result. destruct (tget a s) as [ad|] eqn:Et.
  - assert (G2 : forall ad', InvG (tput a ad' (set_flying (set_inflight s (w_inflight s - 1)) (remove1 a (w_flying s)))) []).
    { intros ad'. apply tput_invG. eapply invG_ext; [..|exact G]; reflexivity. }
    destruct r as [addok|e|pub now].
    + destruct addok.
      * match goal with |- context [succ_loop a ?p] => destruct (succ_loop a p) as [keep out] end.
        pose proof (tput_invG _ a (ad_set_st (ad_set_upg ad None) DConn) (G2 (ad_set_upg ad None))) as G3.
        eapply invG_ext; [..|exact G3]; reflexivity.
      * apply dispatch_error_invG; [apply G2 | discriminate].
    + match goal with |- InvG (schedule ?x) [] => destruct (schedule_same x) as [_ [_ [_ [A [B [C [_ [_ [D E]]]]]]]]] end.
      eapply invG_ext; [exact A|exact B|exact C|exact E|exact D|].
      apply dispatch_error_invG; [apply G2 | intros ->; congruence].
    + match goal with |- InvG (schedule ?x) [] => destruct (schedule_same x) as [_ [_ [_ [A [B [C [_ [_ [D E]]]]]]]]] end.
      eapply invG_ext; [exact A|exact B|exact C|exact E|exact D|].
      destruct pub; [apply tput_invG, G | exact G].
  - eapply invG_ext; [..|exact G]; reflexivity.
Qed.

Lemma on_timer_invG : forall s bo bestl, InvG s [] -> InvG (on_timer s bo bestl) [].
Proof.
  intros s bo bestl G. unfold on_timer. destruct (next_batch (w_dq s)) as [batch rest] eqn:En.
  apply next_batch_app in En.
  match goal with |- InvG (schedule ?x) [] => destruct (schedule_same x) as [_ [_ [_ [A [B [C [_ [_ [D E]]]]]]]]] end.
  eapply invG_ext; [exact A|exact B|exact C|exact E|exact D|]. apply batch_loop_invG.
  intros x Hx. wprj. destruct (G x Hx) as [H|[H|[H1 H2]]]; [left; exact H | right; left; exact H|].
  right. right. split; [|exact H2]. cbn [app] in H1. rewrite En in H1. unfold keys in *. rewrite map_app in H1. exact H1.
Qed.

Lemma join_loop_invG : forall sim rk tj s, InvG s [] -> InvG (join_loop sim rk tj s) [].
Proof.
  induction tj as [|a r IH]; intros s G; cbn [join_loop]; [exact G|]. apply IH.
  destruct (tget a s) as [ad|] eqn:Et; [|exact G].
  destruct (negb (ad_dialed ad) && sim && negb (ad_sim ad)); [|exact G].
  intros x Hx. wprj. destruct (G x Hx) as [H|[H|[H1 H2]]]; [left; exact H | right; left; exact H|].
  right. right. cbn [app] in *. split; [apply dq_uoa_mono, H1|]. tg. destruct (a =? x); [discriminate | exact H2].
Qed.

Lemma todial_loop_invG : forall sim fdir rk td s, InvG s [] -> InvG (todial_loop sim fdir rk td s) [].
Proof.
  induction td as [|a r IH]; intros s G; cbn [todial_loop]; [exact G|]. apply IH.
  intros x Hx. wprj. cbn [app]. apply in_app_or in Hx. destruct Hx as [Hx|[Hx|[]]].
  - destruct (G x Hx) as [H|[H|[H1 H2]]]; [left; exact H | right; left; exact H|].
    right. right. cbn [app] in H1. split; [apply dq_add_keys; right; exact H1|].
    tg. destruct (a =? x); [discriminate | exact H2].
  - subst x. right. right. split; [apply dq_add_keys; left; reflexivity|]. tg. rewrite Z.eqb_refl. discriminate.
Qed.

Lemma on_request_invG : forall s rid sim fdir best rank, InvG s [] ->
  InvG (on_request s rid sim fdir best rank) [].
Proof.
  intros s rid sim fdir best rank G. unfold on_request.
  set (s0 := set_seen s (w_seen s ++ [rid])).
  assert (G0 : InvG s0 []) by (eapply invG_ext; [..|exact G]; reflexivity).
  assert (R : forall r, InvG (respond s0 rid r) []) by (intros r; eapply invG_ext; [..|exact G0]; reflexivity).
  destruct best; [apply R|]. destruct rank as [rk|]; [|apply R].
  destruct (scan s0 rk [] [] []) as [|td tj ed]; [apply R|].
  set (s1 := set_pending s0 (w_pending s0 ++ [mkPr rid (removeall ed (nodupz (map fst rk)))])).
  assert (X : InvG (schedule (todial_loop sim fdir rk td (join_loop sim rk tj s1))) []).
  { match goal with |- InvG (schedule ?x) [] => destruct (schedule_same x) as [_ [_ [_ [A [B [C [_ [_ [D E]]]]]]]]] end.
    eapply invG_ext; [exact A|exact B|exact C|exact E|exact D|].
    apply todial_loop_invG, join_loop_invG. eapply invG_ext; [..|exact G0]; reflexivity. }
  destruct td; destruct tj; try exact X. apply R.
Qed.

Lemma wstep_invG : forall s e, InvG s [] -> (w_stopped s = false -> wf_ev s e) -> InvG (wstep s e) [].
Proof.
  intros s e G W. unfold wstep. destruct (w_stopped s) eqn:St; [exact G|]. specialize (W eq_refl).
  destruct e as [rid sim fdir best rank|bo bestl|a r bestl|].
  - apply on_request_invG, G.
  - apply on_timer_invG, G.
  - destruct W as [_ W]. apply on_result_invG; auto.
  - eapply invG_ext; [..|exact G]; reflexivity.
Qed.

Lemma wrun_invG : forall evs s, InvG s [] -> wf_run s evs -> InvG (wrun s evs) [].
Proof.
  induction evs as [|e r IH]; intros s A W; cbn [wrun fold_left]; [exact A|].
  destruct W as [W1 W2]. apply IH; [apply wstep_invG; auto | exact W2].
Qed.

Lemma all_eligible_attempted_l : forall evs, wf_run init_w evs ->
  let s := wrun init_w evs in
  w_dq s = [] -> forall a, In a (w_asked s) -> In a (w_dials s) \/ In a (w_refused s).
Proof.
  intros evs W s Hq a Ha.
  assert (G0 : InvG init_w []) by (intros x []).
  destruct (wrun_invG evs init_w G0 W a Ha) as [H|[H|[H _]]]; [left; exact H | right; exact H|].
  fold s in H. rewrite Hq in H. destruct H.
Qed.

(* C05 — limiter cases: wire decoding, model replay (conformance) and the
   property monitor.  No proofs here.

   Wire format of a limiter case (one line of integers):

     1 fdLimit perPeerLimit  (stimulus observation)*

   stimulus:
     1 jid peer fd grp     AddDialJob of a job: identity jid, peer id, fd = 1 iff
                           shouldConsumeFd(addr), grp = id of its context
     2 grp                 the context grp is cancelled
     3 peer                clearAllPeerDials(peer)
     4 jid                 the scripted dialFunc of job jid is released (returns)
     5 jid grp             (followed by TWO observations) the attempt of job jid has completed
                           - its dialFunc was released earlier - while nobody receives from its
                           response channel (unbuffered, not drained), so its executeDial goroutine
                           is parked in the delivery of the result; now context grp (the job's
                           own context) is cancelled.  The limiter's state is not touched between
                           the return of dialFunc and the end of the delivery, and the model's
                           LReturn is 'dialFunc returns; the result is delivered or dropped;
                           finishedDial' in one step, so this history is the model history
                           'cancel grp, then return jid':  the first observation is taken with
                           the goroutine parked in the delivery, just before the cancellation
                           (the attempt counts as in progress: it is listed among the
                           invocations in progress), the second after the cancellation (the
                           attempt is over: its result was not delivered and every caller of
                           its context has given up; it is not listed any more).  Decoded as
                           the two trace entries (SCancel grp, obs1) (SReturn jid, obs2).
                           The release of the dialFunc itself is not recorded (nothing of it is
                           visible at the limiter's interface until the result is delivered or
                           dropped); other stimuli may lie between it and this one.
   observation (taken after synctest.Wait, i.e. when every goroutine is parked):
     fdConsuming  len(waitingOnFd)  nsp
     na (peer count)*na            activePerPeer, sorted by peer
     nw (peer len)*nw              len(waitingOnPeerLimit[peer]), sorted by peer
     nd (jid peer fd grp)*nd       the dialFunc invocations in progress, sorted by jid
                                   (from the harness' own bookkeeping; an invocation
                                   that happened twice is listed twice)
   nsp is the number of executeDial goroutines that have been started but have
   not reached their first statement; after synctest.Wait it is 0 by construction
   and the harness writes 0. *)
From Coq Require Import List ZArith Bool.
From Verif Require Import lib.Wire c05.ModelLimiter.
Import ListNotations.
Local Open Scope Z_scope.

Inductive lstim := SAdd (j : job) | SCancel (g : Z) | SClear (p : Z) | SReturn (id : Z).

Record lobs := mkLobs {
  o_fd : Z; o_nwfd : Z; o_nsp : Z;
  o_act : list (Z * Z); o_wp : list (Z * Z); o_dial : list job }.

Definition lop_of (x : lstim) : lop :=
  match x with
  | SAdd j => LAdd j | SCancel g => LCancel g | SClear p => LClear p | SReturn id => LReturn id
  end.

(* ---- decoding --------------------------------------------------------------- *)
Fixpoint take_pairs (n : nat) (l : list Z) : option (list (Z * Z) * list Z) :=
  match n with
  | O => Some ([], l)
  | S k => match l with
           | a :: b :: r => match take_pairs k r with
                            | Some (ps, r') => Some ((a, b) :: ps, r')
                            | None => None end
           | _ => None end
  end.

Fixpoint take_jobs (n : nat) (l : list Z) : option (list job * list Z) :=
  match n with
  | O => Some ([], l)
  | S k => match l with
           | a :: b :: c :: d :: r =>
               match take_jobs k r with
               | Some (js, r') => Some (mkJob a b (zbool c) d :: js, r')
               | None => None end
           | _ => None end
  end.

Definition small (z : Z) : bool := (0 <=? z) && (z <? 100000).

Definition decode_lobs (l : list Z) : option (lobs * list Z) :=
  match l with
  | fd :: nwfd :: nsp :: na :: r =>
      if small na then
      match take_pairs (Z.to_nat na) r with
      | Some (act, nw :: r1) =>
          if small nw then
          match take_pairs (Z.to_nat nw) r1 with
          | Some (wp, nd :: r2) =>
              if small nd then
              match take_jobs (Z.to_nat nd) r2 with
              | Some (dl, r3) => Some (mkLobs fd nwfd nsp act wp dl, r3)
              | None => None end
              else None
          | _ => None end
          else None
      | _ => None end
      else None
  | _ => None
  end.

Definition decode_lstim (l : list Z) : option (lstim * list Z) :=
  match l with
  | 1 :: a :: b :: c :: d :: r => Some (SAdd (mkJob a b (zbool c) d), r)
  | 2 :: g :: r => Some (SCancel g, r)
  | 3 :: p :: r => Some (SClear p, r)
  | 4 :: id :: r => Some (SReturn id, r)
  | _ => None
  end.

Fixpoint decode_ltrace (fuel : nat) (l : list Z) : option (list (lstim * lobs)) :=
  match fuel with
  | O => None
  | S f =>
      match l with
      | [] => Some []
      | 5 :: id :: g :: r0 =>
          match decode_lobs r0 with
          | Some (oa, r1) =>
              match decode_lobs r1 with
              | Some (ob, r2) =>
                  match decode_ltrace f r2 with
                  | Some t => Some ((SCancel g, oa) :: (SReturn id, ob) :: t)
                  | None => None end
              | None => None end
          | None => None end
      | _ => match decode_lstim l with
             | Some (x, r) =>
                 match decode_lobs r with
                 | Some (o, r') =>
                     match decode_ltrace f r' with
                     | Some t => Some ((x, o) :: t)
                     | None => None end
                 | None => None end
             | None => None end
      end
  end.

(* ---- what the model shows ------------------------------------------------------ *)
Fixpoint ins_pair (x : Z * Z) (l : list (Z * Z)) : list (Z * Z) :=
  match l with
  | [] => [x]
  | y :: r => if fst x <=? fst y then x :: l else y :: ins_pair x r
  end.
Definition sort_pairs (l : list (Z * Z)) : list (Z * Z) := fold_right ins_pair [] l.

Fixpoint ins_job (x : job) (l : list job) : list job :=
  match l with
  | [] => [x]
  | y :: r => if jid x <=? jid y then x :: l else y :: ins_job x r
  end.
Definition sort_jobs (l : list job) : list job := fold_right ins_job [] l.

(* the keys of an association list, sorted, each once *)
Fixpoint ins_key (x : Z) (l : list Z) : list Z :=
  match l with
  | [] => [x]
  | y :: r => if x <? y then x :: l else if x =? y then l else y :: ins_key x r
  end.
Definition skeys {V} (m : list (Z * V)) : list Z := fold_right ins_key [] (map fst m).

(* a Go map is shown as its non-zero / non-empty entries, sorted by key; the
   model's association list denotes the map  k |-> act_get k / wl_get k *)
Definition act_obs (m : list (Z * Z)) : list (Z * Z) :=
  filter (fun e => negb (snd e =? 0)) (map (fun k => (k, act_get k m)) (skeys m)).
Definition wp_obs (m : list (Z * list job)) : list (Z * Z) :=
  filter (fun e => negb (snd e =? 0)) (map (fun k => (k, zlen (wl_get k m))) (skeys m)).

Definition obs_of (s : lim) : lobs :=
  mkLobs (fdConsuming s) (zlen (waitingOnFd s)) (zlen (spawned s))
         (act_obs (activePerPeer s))
         (wp_obs (waitingOnPeer s))
         (sort_jobs (dialing s)).

(* one harness stimulus: the method call, then every started goroutine runs
   to its first parking point *)
Definition stim_step (s : lim) (x : lstim) : lim :=
  let s1 := lstep s (lop_of x) in drain (drain_fuel s1) s1.

Fixpoint lim_trace (s : lim) (xs : list lstim) : list (lstim * lobs) :=
  match xs with
  | [] => []
  | x :: r => let s' := stim_step s x in (x, obs_of s') :: lim_trace s' r
  end.

Definition pair_eqb (a b : Z * Z) : bool := (fst a =? fst b) && (snd a =? snd b).
Definition job_eqb (a b : job) : bool :=
  (jid a =? jid b) && (jpeer a =? jpeer b) && Bool.eqb (jfd a) (jfd b) && (jgrp a =? jgrp b).

Definition lobs_eqb (a b : lobs) : bool :=
  (o_fd a =? o_fd b) && (o_nwfd a =? o_nwfd b) && (o_nsp a =? o_nsp b) &&
  list_eqb pair_eqb (o_act a) (o_act b) && list_eqb pair_eqb (o_wp a) (o_wp b) &&
  list_eqb job_eqb (o_dial a) (o_dial b).

Fixpoint conform_lim (s : lim) (i : Z) (tr : list (lstim * lobs)) : list Z :=
  match tr with
  | [] => []
  | (x, o) :: r =>
      let s' := stim_step s x in
      let m := obs_of s' in
      if lobs_eqb m o then conform_lim s' (i + 1) r
      else [ERR_MISMATCH; i; o_fd m; o_fd o; o_nwfd m; o_nwfd o;
            zlen (o_dial m); zlen (o_dial o); zlen (o_act m); zlen (o_act o);
            zlen (o_wp m); zlen (o_wp o)]
  end.

(* ---- the property on an observed limiter trace ----------------------------------- *)
Fixpoint count_fd (l : list job) : Z :=
  match l with [] => 0 | j :: r => (if jfd j then 1 else 0) + count_fd r end.
Fixpoint count_peer (p : Z) (l : list job) : Z :=
  match l with [] => 0 | j :: r => (if jpeer j =? p then 1 else 0) + count_peer p r end.

Definition mem_z (x : Z) (l : list Z) : bool := existsb (Z.eqb x) l.

(* monitor state: cancelled contexts; jobs that were added with a live context
   and have been neither seen in a dialFunc, nor cancelled, nor cleared *)
Record lmon := mkLmon { m_canc : list Z; m_pend : list job }.

Definition lmon_stim (m : lmon) (x : lstim) : lmon :=
  match x with
  | SAdd j => if mem_z (jgrp j) (m_canc m) then m else mkLmon (m_canc m) (m_pend m ++ [j])
  | SCancel g => mkLmon (g :: m_canc m) (filter (fun j => negb (jgrp j =? g)) (m_pend m))
  | SClear p => mkLmon (m_canc m) (filter (fun j => negb (jpeer j =? p)) (m_pend m))
  | SReturn _ => m
  end.

(* caps: "no more than the per-peer and file-descriptor concurrency caps are in
   flight", on the dialFunc invocations and on the limiter's own token counters *)
Definition caps_ok (fdl ppl : Z) (o : lobs) : bool :=
  (0 <=? o_fd o) && (o_fd o <=? fdl) &&
  forallb (fun e => (0 <=? snd e) && (snd e <=? ppl)) (o_act o) &&
  (count_fd (o_dial o) <=? fdl) &&
  forallb (fun j => count_peer (jpeer j) (o_dial o) <=? ppl) (o_dial o).

(* nothing in flight and no goroutine on its way: then no token is held and no
   job is queued ("no attempt, token ... remains") *)
Definition quiet (o : lobs) : bool :=
  match o_dial o with [] => o_nsp o =? 0 | _ => false end.
Definition residue_ok (o : lobs) : bool :=
  negb (quiet o) ||
  ((o_fd o =? 0) && (o_nwfd o =? 0) &&
   match o_act o with [] => true | _ => false end &&
   match o_wp o with [] => true | _ => false end).

Definition lmon_obs (m : lmon) (o : lobs) : lmon :=
  mkLmon (m_canc m)
         (filter (fun j => negb (mem_z (jid j) (map jid (o_dial o)))) (m_pend m)).

(* every live job is attempted: a live job may wait only while some dial is in
   flight (whose completion will hand its token on) *)
Definition live_ok (m : lmon) (o : lobs) : bool :=
  negb (quiet o) || match m_pend m with [] => true | _ => false end.

Fixpoint monitor_lim (fdl ppl : Z) (m : lmon) (i : Z) (tr : list (lstim * lobs)) : list Z :=
  match tr with
  | [] => []
  | (x, o) :: r =>
      let m1 := lmon_obs (lmon_stim m x) o in
      if negb (caps_ok fdl ppl o) then [ERR_PROPERTY; i; 1; o_fd o; count_fd (o_dial o)]
      else if negb (residue_ok o) then [ERR_PROPERTY; i; 2; o_fd o; o_nwfd o]
      else if negb (live_ok m1 o) then [ERR_PROPERTY; i; 3; zlen (m_pend m1)]
      else monitor_lim fdl ppl m1 (i + 1) r
  end.

(* each job's dialFunc is invoked at most once: an id that was in flight and is
   gone never comes back, and is never in flight twice at the same time.
   (Checked on the implementation's traces; the corresponding statement about
   the model needs unique job ids and is not among the theorems.) *)
Fixpoint nodup_z (l : list Z) : bool :=
  match l with [] => true | x :: r => negb (mem_z x r) && nodup_z r end.

Fixpoint once_lim (prev gone : list Z) (i : Z) (tr : list (lstim * lobs)) : list Z :=
  match tr with
  | [] => []
  | (_, o) :: r =>
      let now := map jid (o_dial o) in
      let gone' := filter (fun id => negb (mem_z id now)) prev ++ gone in
      if nodup_z now && forallb (fun id => negb (mem_z id gone')) now
      then once_lim now gone' (i + 1) r
      else [ERR_PROPERTY; i; 4]
  end.

Definition conform_lim_case (l : list Z) : list Z :=
  match l with
  | fdl :: ppl :: r =>
      match decode_ltrace (S (length r)) r with
      | Some tr => conform_lim (init_lim fdl ppl) 0 tr
      | None => [ERR_MALFORMED; 11]
      end
  | _ => [ERR_MALFORMED; 10]
  end.

Definition monitor_lim_case (l : list Z) : list Z :=
  match l with
  | fdl :: ppl :: r =>
      match decode_ltrace (S (length r)) r with
      | Some tr =>
          match monitor_lim fdl ppl (mkLmon [] []) 0 tr with
          | [] => once_lim [] [] 0 tr
          | d => d
          end
      | None => [ERR_MALFORMED; 11]
      end
  | _ => [ERR_MALFORMED; 10]
  end.

(* C05 — composite LTS, part 4: the headline clauses, for every schedule. *)
From Coq Require Import List ZArith Bool Lia Permutation.
From Verif Require Import c05.ModelLimiter c05.Proofs_Limiter c05.Proofs_LimiterMon.
From Verif Require Import c05.ModelWorker c05.Proofs_Worker c05.Proofs_WorkerMon c05.Proofs_WorkerFly.
From Verif Require Import c05.ModelSync c05.Proofs_Sync c05.ModelComposite.
From Verif Require Import c05.Proofs_Composite c05.Proofs_Composite2 c05.Proofs_Composite3.
Import ListNotations.
Local Open Scope Z_scope.

(* a caller whose request the worker has taken is in that worker's w_seen *)
Definition SeenInv (s : cst) : Prop :=
  forall c r, cget c s = Some r -> cr_phase r = PWaiting -> In c (w_seen (wget (cr_gen r) s)).

Lemma wstep_seen_mono : forall w e x, In x (w_seen w) -> In x (w_seen (wstep w e)).
Proof.
  intros w e x H. destruct (w_stopped w) eqn:St; [rewrite wstep_stopped by exact St; exact H|].
  rewrite wstep_seen by exact St. destruct e; try exact H. apply in_or_app. left. exact H.
Qed.

Lemma seeninv_frame : forall s s', SeenInv s ->
  (forall c r, cget c s = Some r -> cr_phase r = PWaiting ->
      In c (w_seen (wget (cr_gen r) s)) -> In c (w_seen (wget (cr_gen r) s'))) ->
  (forall c r', cget c s' = Some r' -> cr_phase r' = PWaiting ->
      exists r, cget c s = Some r /\ cr_phase r = PWaiting /\ cr_gen r = cr_gen r') ->
  SeenInv s'.
Proof.
  intros s s' S Hw Hc c r' H1 H2. destruct (Hc c r' H1 H2) as [r [A [B C]]]. rewrite <- C. apply (Hw c r A B), (S c r A B).
Qed.

Lemma live_gen_bound : forall s c r, GInv s -> cget c s = Some r -> cr_phase r <> PReturned -> cr_gen r < c_next s.
Proof.
  intros s c r G H L. pose proof (g_livegen s G c r H L) as Hg. destruct (g_gen s G _ _ Hg) as [_ [_ [_ [_ [_ F]]]]]. exact F.
Qed.

(* same workers, same job table, callers only change by a record that is not Waiting or keeps phase and gen *)
Lemma seeninv_cput : forall s c rc s1, SeenInv s -> c_w s1 = c_w s -> c_callers s1 = c_callers s ->
  (cr_phase rc = PWaiting -> exists r, cget c s = Some r /\ cr_phase r = PWaiting /\ cr_gen r = cr_gen rc) ->
  SeenInv (cput c rc s1).
Proof.
  intros s c rc s1 S Ew Ec Hr. eapply seeninv_frame; [exact S| |].
  - intros x r _ _ H. unfold wget in *. cprj. rewrite Ew. exact H.
  - intros x r'. unfold cget. cprj. rewrite Ec, aget_aput. destruct (c =? x) eqn:E.
    + apply Z.eqb_eq in E. subst x. intros H Hp. inversion H; subst r'. apply Hr, Hp.
    + intros H Hp. exists r'. auto.
Qed.

Lemma seeninv_same : forall s s', SeenInv s -> c_w s' = c_w s -> c_callers s' = c_callers s -> SeenInv s'.
Proof.
  intros s s' S Ew Ec c r H1 H2. unfold cget, wget in *. rewrite Ew. rewrite Ec in H1. apply (S c r H1 H2).
Qed.

Lemma seeninv_wput : forall s g e, SeenInv s -> SeenInv (wput g (wstep (wget g s) e) s).
Proof.
  intros s g e S c r H1 H2. rewrite wget_wput. destruct (g =? cr_gen r) eqn:E; [|apply (S c r H1 H2)].
  apply Z.eqb_eq in E. subst g. apply wstep_seen_mono, (S c r H1 H2).
Qed.

Lemma seeninv_do_leave : forall s c r k, SeenInv s -> SeenInv (do_leave s c r k).
Proof.
  intros s c r k S. unfold do_leave.
  set (s1 := set_sync s (sstep (c_sync s) (SLeave c (cr_peer r)))).
  set (s2 := set_rets (cput c (set_phase r PReturned) s1) (c_rets s1 ++ [(c, k)])).
  assert (S2 : SeenInv s2).
  { eapply seeninv_same; [apply (seeninv_cput s c (set_phase r PReturned) s1 S); try reflexivity|..]; try reflexivity.
    cbn. discriminate. }
  fold s1. fold s2. destruct (p_active _); [exact S2|].
  set (s3 := lim_do s2 (LCancel (cr_gen r))).
  assert (S3 : SeenInv s3) by (eapply seeninv_same; [exact S2|..]; reflexivity).
  eapply seeninv_same; [apply (seeninv_wput s3 (cr_gen r) WClose S3)|..]; reflexivity.
Qed.

Lemma cstep_seeninv : forall s l, GInv s -> SeenInv s -> SeenInv (cstep s l).
Proof.
  intros s l G S. destruct l; cbn [cstep].
  - destruct (cget c s) as [r0|] eqn:Ec; [exact S|].
    destruct best.
    + eapply seeninv_same; [apply (seeninv_cput s c (mkC p 0 PReturned false sim fdir) s S); try reflexivity|..]; try reflexivity.
      cbn. discriminate.
    + destruct (p_active _); cprj.
      * destruct (aget None p (c_gen s)); [|exact S]. apply (seeninv_cput s); auto. cbn. discriminate.
      * (* a new generation: no live caller carries its id yet *)
        eapply seeninv_frame; [exact S| |].
        -- intros x r H1 H2 H3. unfold wget in *. cprj. rewrite aget_aput.
           destruct (c_next s =? cr_gen r) eqn:E; [|exact H3]. exfalso. apply Z.eqb_eq in E.
           assert (X : cr_gen r < c_next s) by (apply (live_gen_bound s x r G H1); rewrite H2; discriminate). lia.
        -- intros x r'. unfold cget. cprj. rewrite aget_aput. destruct (c =? x); [intros H Hp; inversion H; subst; discriminate | eauto].
  - destruct (cget c s) as [r|] eqn:Ec; [|exact S]. destruct (cr_phase r) eqn:Ep; try exact S.
    (* the request is taken: c enters w_seen of its (live, hence running) worker *)
    pose proof (g_livegen s G c r Ec) as Hg. unfold live in Hg. rewrite Ep in Hg. specialize (Hg ltac:(discriminate)).
    destruct (g_gen s G _ _ Hg) as [_ [St _]].
    intros x r' H1 H2. rewrite cget_cput in H1. destruct (c =? x) eqn:E.
    + apply Z.eqb_eq in E. subst x. inversion H1; subst r'. cbn [cr_gen set_phase].
      unfold wget. cprj. rewrite aget_aput, Z.eqb_refl. rewrite wstep_seen by exact St.
      apply in_or_app. right. left. reflexivity.
    + assert (H1' : cget x s = Some r') by exact H1.
      change (In x (w_seen (wget (cr_gen r') (wput (cr_gen r) (wstep (wget (cr_gen r) s) (WReq c (cr_sim r) (cr_fdir r) best rank)) s)))).
      apply seeninv_wput; auto.
  - destruct (g <? c_next s); [|exact S].
    match goal with |- SeenInv (fold_left ?f ?news ?s0) =>
      destruct (add_jobs_frame g (aget 0 g (c_gpeer s)) news s0) as [A [_ [_ [_ [_ [F _]]]]]] end.
    eapply seeninv_same; [apply (seeninv_wput s g (WTimer bo bestl) S) | exact F | exact A].
  - eapply seeninv_same; [exact S|..]; reflexivity.
  - destruct (jget n s) as [j|]; [|exact S]. destruct (_ && _); [|exact S].
    eapply seeninv_same; [apply (seeninv_wput s (jr_gen j) (WRes (jr_addr j) r bestl) S)|..]; reflexivity.
  - destruct (jget n s) as [j|]; [|exact S]. destruct (jr_reported j); [|exact S].
    eapply seeninv_same; [exact S|..]; reflexivity.
  - destruct (cget c s) as [r|] eqn:Ec; [|exact S].
    assert (X : SeenInv (cput c (set_canc r) s)).
    { apply (seeninv_cput s); auto. intros Hp. exists r. cbn in Hp. auto. }
    destruct (cr_phase r); [exact X | exact X | exact S].
  - destruct (cget c s) as [r|]; [|exact S]. destruct (cr_phase r); try exact S.
    + destruct (cr_canc r); [apply seeninv_do_leave, S | exact S].
    + destruct (resp_of c _) as [[|]|]; try (apply seeninv_do_leave, S).
      destruct (cr_canc r); [apply seeninv_do_leave, S | exact S].
  - destruct (memz g (c_stale s)); [|exact S]. eapply seeninv_same; [exact S|..]; reflexivity.
Qed.

(* all the invariants together *)
Record CInv (fdl ppl : Z) (s : cst) : Prop := mkCInv {
  ci_lim : LimOK fdl ppl (c_lim s);
  ci_g : GInv s; ci_r : RInv s; ci_w : WInv s; ci_seen : SeenInv s }.

Lemma cstep_cinv : forall fdl ppl s l, CInv fdl ppl s -> wf_label l -> CInv fdl ppl (cstep s l).
Proof.
  intros fdl ppl s l [A B C D E] Hl. constructor.
  - apply (cstep_lim (LimOK fdl ppl)); [apply LimOK_step | exact A].
  - apply cstep_ginv, B.
  - apply cstep_rinv, C.
  - apply cstep_winv; auto.
  - apply cstep_seeninv; auto.
Qed.

Lemma crun_cinv : forall fdl ppl ls s, CInv fdl ppl s -> Forall wf_label ls -> CInv fdl ppl (crun s ls).
Proof.
  induction ls as [|l r IH]; intros s I F; cbn [crun fold_left]; [exact I|].
  inversion F; subst. apply IH; [apply cstep_cinv; auto | assumption].
Qed.

Lemma init_cinv : forall fdl ppl fd, 0 <= fdl -> 0 <= ppl -> CInv fdl ppl (init_c fdl ppl fd).
Proof.
  intros. constructor.
  - cbn. split; [apply init_inv2; assumption | split; reflexivity].
  - apply init_ginv.
  - apply init_rinv.
  - apply init_winv.
  - intros c r X. discriminate.
Qed.

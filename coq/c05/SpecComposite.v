(* C05 — the composite model driven the way the DialPeer harness drives the
   implementation: one stimulus, then everything that can run runs until every
   goroutine is parked (synctest.Wait).  Every move is a label of
   ModelComposite.cstep; this file only chooses which labels are taken and what the
   environment answers.  No proofs here.

   The harness uses one peer (id 1).  Scripted transports end a dial when told to
   (stimulus 3) or when the dial's context is cancelled. *)
From Coq Require Import List ZArith Bool.
From Verif Require Import lib.Wire c05.ModelLimiter c05.ModelWorker c05.ModelSync c05.ModelComposite.
From Verif Require Import c05.SpecLimiter c05.SpecWorker c05.SpecDialPeer.
Import ListNotations.
Local Open Scope Z_scope.

Definition PEER : Z := 1.

Record denv := mkDE {
  dn_now : Z;
  dn_backoff : list Z;
  dn_conn : bool; dn_direct : bool;
  dn_start : list (Z * Z);                           (* generation -> time its loop started *)
  dn_rank : list (Z * option (option (list (Z * Z)))); (* caller -> what addrsForDial/rankAddrs answer for it *)
  dn_park : bool;                                    (* the gater parks the next request handling *)
  dn_blocked : option Z;                             (* the generation whose loop is parked in the gater *)
  dn_starts : list Z; dn_ends : list Z }.            (* transport dials started / ended in this step *)

Definition init_denv : denv := mkDE 0 [] false false [] [] false None [] [].

Definition de_now (e : denv) v := mkDE v (dn_backoff e) (dn_conn e) (dn_direct e) (dn_start e) (dn_rank e) (dn_park e) (dn_blocked e) (dn_starts e) (dn_ends e).
Definition de_backoff (e : denv) v := mkDE (dn_now e) v (dn_conn e) (dn_direct e) (dn_start e) (dn_rank e) (dn_park e) (dn_blocked e) (dn_starts e) (dn_ends e).
Definition de_conn (e : denv) c d := mkDE (dn_now e) (dn_backoff e) c d (dn_start e) (dn_rank e) (dn_park e) (dn_blocked e) (dn_starts e) (dn_ends e).
Definition de_start (e : denv) v := mkDE (dn_now e) (dn_backoff e) (dn_conn e) (dn_direct e) v (dn_rank e) (dn_park e) (dn_blocked e) (dn_starts e) (dn_ends e).
Definition de_rank (e : denv) v := mkDE (dn_now e) (dn_backoff e) (dn_conn e) (dn_direct e) (dn_start e) v (dn_park e) (dn_blocked e) (dn_starts e) (dn_ends e).
Definition de_park (e : denv) p b := mkDE (dn_now e) (dn_backoff e) (dn_conn e) (dn_direct e) (dn_start e) (dn_rank e) p b (dn_starts e) (dn_ends e).
Definition de_se (e : denv) s n := mkDE (dn_now e) (dn_backoff e) (dn_conn e) (dn_direct e) (dn_start e) (dn_rank e) (dn_park e) (dn_blocked e) s n.

Definition okconn (e : denv) (fdir : bool) : bool := dn_conn e && (negb fdir || dn_direct e).

Definition is_blocked (e : denv) (g : Z) : bool :=
  match dn_blocked e with Some b => b =? g | None => false end.

(* the requests pending in worker g for which an acceptable connection exists *)
Definition dbestl (e : denv) (s : cst) (g : Z) : list Z :=
  filter (fun c => match cget c s with Some r => okconn e (cr_fdir r) | None => false end)
         (map pr_id (w_pending (wget g s))).

Definition caller_ids (s : cst) : list Z := sort_z (map fst (c_callers s)).

Definition rank_for (e : denv) (c : Z) : option (list (Z * Z)) :=
  match aget None c (dn_rank e) with Some x => x | None => None end.

(* 1: the worker loops take the requests of the callers parked on reqch *)
Definition deliver_one (es : denv * cst) (c : Z) : denv * cst :=
  let (e, s) := es in
  match cget c s with
  | Some r =>
      match cr_phase r with
      | PSending =>
          let g := cr_gen r in
          if is_blocked e g then es
          else if dn_park e then (de_park e false (Some g), s)
          else
            (e, cstep s (CDeliver c (okconn e (cr_fdir r)) (rank_for e c)))
      | _ => es
      end
  | None => es
  end.

(* 2: the dial timer of the live generation, when due *)
Definition live_gen (s : cst) : option Z := aget None PEER (c_gen s).

Definition timer_due (e : denv) (s : cst) (g : Z) (horizon : Z) : option Z :=
  let w := wget g s in
  if w_stopped w || is_blocked e g then None else
  match w_timer w with
  | Some t => let at_ := aget 0 g (dn_start e) + t in if at_ <=? horizon then Some at_ else None
  | None => None
  end.

Definition fire_timer (es : denv * cst) : denv * cst :=
  let (e, s) := es in
  match live_gen s with
  | Some g =>
      match timer_due e s g (dn_now e) with
      | Some _ => (e, cstep s (CTimer g (dn_backoff e) (dbestl e s g)))
      | None => es
      end
  | None => es
  end.

(* 3: started goroutines reach the cancelled() test; the others call the transport *)
Definition begin_one (es : denv * cst) (j : job) : denv * cst :=
  let (e, s) := es in
  let live := negb (is_cancelled (c_lim s) j) in
  let a := match jget (jid j) s with Some r => jr_addr r | None => 0 end in
  ((if live then de_se e (dn_starts e ++ [a]) (dn_ends e) else e), cstep s (CBegin (jid j))).

(* 4: a parked transport dial whose context is cancelled returns; 5: finishedDial *)
Definition end_job (es : denv * cst) (n : Z) (r : dres) : denv * cst :=
  let (e, s) := es in
  match jget n s with
  | Some j =>
      let s1 := cstep s (CRes n r (dbestl e s (jr_gen j))) in
      (de_se e (dn_starts e) (dn_ends e ++ [jr_addr j]), cstep s1 (CFin n))
  | None => es
  end.

Definition cancelled_dialing (s : cst) : list Z :=
  map jid (filter (fun j => is_cancelled (c_lim s) j) (dialing (c_lim s))).

(* 6: callers whose select has a ready case *)
Definition leave_one (es : denv * cst) (c : Z) : denv * cst :=
  let (e, s) := es in (e, cstep s (CLeave c true)).

(* 7: closed workers return, unless parked in the gater *)
Definition exit_one (es : denv * cst) (g : Z) : denv * cst :=
  let (e, s) := es in if is_blocked e g then es else (e, cstep s (CExit g)).

Definition round (es : denv * cst) : denv * cst :=
  let es1 := fold_left deliver_one (caller_ids (snd es)) es in
  let es2 := fire_timer es1 in
  let es3 := fold_left begin_one (spawned (c_lim (snd es2))) es2 in
  let es4 := fold_left (fun x n => end_job x n (DRFail ECanceled)) (cancelled_dialing (snd es3)) es3 in
  let es5 := fold_left leave_one (caller_ids (snd es4)) es4 in
  fold_left exit_one (c_stale (snd es5)) es5.

Fixpoint rounds (n : nat) (es : denv * cst) : denv * cst :=
  match n with O => es | S k => rounds k (round es) end.

(* How many rounds: a bound computed from the state.  Every move that changes anything lowers
   it (Proofs_CompositeQ.round_dich), so after that many rounds nothing moves any more
   (drain_quiet): a request still to be delivered counts 4 plus 4 per ranked address (the
   addresses enter the dial queue), a caller inside 2 (its return, the close of the worker),
   the dial queue of the live worker 4 per entry (a job: 2 while queued or about to run, 1
   while dialing) plus 1 for an armed timer, a closed worker that has not returned 1, a
   pending park of the gater 1. *)
Definition rank_len (e : denv) (c : Z) : Z :=
  match rank_for e c with Some rk => zlen rk | None => 0 end.

Definition caller_wt (e : denv) (x : Z * option crec) : Z :=
  match snd x with
  | Some r => match cr_phase r with
              | PSending => 4 + 4 * rank_len e (fst x)
              | PWaiting => 2
              | PReturned => 0 end
  | None => 0
  end.

Definition asum {A : Type} (wt : A -> Z) (l : list A) : Z := fold_right (fun x acc => wt x + acc) 0 l.

Definition worker_wt (w : wst) : Z :=
  4 * zlen (w_dq w) + match w_timer w with Some _ => 1 | None => 0 end.

Definition lim_wt (l : lim) : Z :=
  2 * (zlen (flat_map snd (waitingOnPeer l)) + zlen (waitingOnFd l) + zlen (spawned l)) + zlen (dialing l).

Definition phi (es : denv * cst) : Z :=
  let (e, s) := es in
  (if dn_park e then 1 else 0) + asum (caller_wt e) (c_callers s)
  + match live_gen s with Some g => worker_wt (wget g s) | None => 0 end
  + lim_wt (c_lim s) + zlen (c_stale s).

Definition drain (es : denv * cst) : denv * cst := rounds (Z.to_nat (phi es)) es.

(* virtual time advances to the next due timer, everything runs, and so on *)
Fixpoint advance_to (fuel : nat) (stop : Z) (es : denv * cst) : denv * cst :=
  match fuel with
  | O => (de_now (fst es) stop, snd es)
  | S f =>
      let (e, s) := es in
      match live_gen s with
      | Some g =>
          match timer_due e s g stop with
          | Some t => advance_to f stop (drain (de_now e (Z.max t (dn_now e)), s))
          | None => (de_now e stop, s)
          end
      | None => (de_now e stop, s)
      end
  end.

(* ---- stimuli ----------------------------------------------------------------------------
   Wire format of a DialPeer case (kind 5):
     5 fdLimit perPeerLimit nfd (addr)*nfd  (stimulus observation)*
   nfd..: the addresses of the case for which shouldConsumeFd holds.
   stimulus:
     1 c sim fdir ok n (addr delay)*n   a new goroutine calls s.DialPeer(ctx_c, p); ok/ranking:
                      what addrsForDial + rankAddrs answer for this request (ok = 0: error)
     2 d              virtual time advances by d ns
     3 a kind         the parked transport dial of address a ends: 0 failure, 1 connection
     4 c              ctx_c is cancelled
     5 a              the address is put in back-off (a < 0: the back-off table of the peer is cleared)
     6                the connection gater will park the next request handling of a worker
                      loop (InterceptAddrDial inside addrsForDial)
     7                the parked gater call returns
   observation: as documented in SpecDialPeer.v. *)
Definition find_dialing (s : cst) (a : Z) : option Z :=
  match filter (fun j => match jget (jid j) s with
                         | Some r => (jr_addr r =? a) && negb (jr_reported r) && negb (is_cancelled (c_lim s) j)
                         | None => false end) (dialing (c_lim s)) with
  | j :: _ => Some (jid j)
  | [] => None
  end.

Definition kstep (es : denv * cst) (x : cstim) : denv * cst :=
  let (e0, s) := es in
  let e := de_se e0 [] [] in
  match x with
  | KCall c sim fdir rank =>
      let s1 := cstep s (CCall c PEER sim fdir (okconn e fdir)) in
      let e1 := de_rank e (aput c (Some rank) (dn_rank e)) in
      let e2 := match cget c s1 with
                | Some r => match aget None (cr_gen r) (map (fun x => (fst x, Some (snd x))) (dn_start e1)) with
                            | Some _ => e1
                            | None => de_start e1 (aput (cr_gen r) (dn_now e1) (dn_start e1)) end
                | None => e1 end in
      drain (e2, s1)
  | KAdvance d => drain (advance_to (S (S (length (w_dq (match live_gen s with Some g => wget g s | None => init_w end)))))
                                    (dn_now e + d) (drain (e, s)))
  | KRes a kind flag =>
      match find_dialing s a with
      | Some n =>
          let g := match jget n s with Some j => jr_gen j | None => 0 end in
          let w := wget g s in
          let tracked := match tget a w with Some _ => true | None => false end in
          let r := if kind =? 1 then DROk true else DRFail EOther in
          let es1 := end_job (e, s) n r in
          let e1 := fst es1 in
          let e2 := if w_stopped w then e1
                    else if (kind =? 1) && tracked then de_conn (de_backoff e1 []) true (dn_direct e1 || flag)
                    else if (kind =? 0) && tracked && negb (w_connected w) then de_backoff e1 (a :: dn_backoff e1)
                    else e1 in
          drain (e2, snd es1)
      | None => (e, s)
      end
  | KCancel c =>
      (* the cancelled caller's select takes its ctx.Done case (the harness never has a
         response pending at this point), then everything else runs *)
      drain (e, cstep (cstep s (CCancel c)) (CLeave c false))
  | KBackoff a => drain (de_backoff e (if a <? 0 then [] else a :: dn_backoff e), s)   (* a < 0: the back-off of the peer has expired *)
  | KPark => (de_park e true (dn_blocked e), s)
  | KRelease => drain (de_park e false None, s)
  end.


(* ---- what the model shows after a step --------------------------------------------------- *)
Definition waiting_callers (s : cst) : Z :=
  zlen (filter (fun e => match snd e with
                         | Some r => match cr_phase r with PReturned => false | _ => true end
                         | None => false end) (c_callers s)).

Definition dobs_of (s0 : cst) (e : denv) (s : cst) : dobs :=
  let dl := dialing (c_lim s) in
  let waiting := waiting_callers s in
  mkDobs (sort_pairs (skipn (length (c_rets s0)) (c_rets s)))
         (sort_z (dn_starts e)) (sort_z (dn_ends e))
         (count_fd dl) (count_peer PEER dl)
         (fdConsuming (c_lim s)) (act_get PEER (activePerPeer (c_lim s)))
         (boolz (p_active (sget PEER (c_sync s))))
         (if waiting =? 0
          then zlen (c_stale s) + zlen (spawned (c_lim s)) + zlen dl + boolz (p_active (sget PEER (c_sync s)))
          else 0)
         waiting.

Definition dobs_nums (a : dobs) : list Z :=
  [d_infd a; d_inpeer a; d_fdc a; d_actp a; d_nad a; d_left a; d_waiting a].

(* Acceptance.  When the last caller leaves in the same step in which a dial ends, the
   release of that dial's tokens (finishedDial) races with the cancellation of the shared
   context: a queued job that receives a token may or may not reach its transport before
   it is cancelled.  Such a dial starts and ends within the step; the schedule the model
   takes starts all of them, the implementation may have started any subset.  Everything
   else - and the state at the end of the step - must agree exactly. *)
Fixpoint zminus (a b : list Z) : list Z :=
  match b with [] => a | x :: r => zminus (remove1 x a) r end.

Definition dobs_eqb (m o : dobs) : bool :=
  let transient := filter (fun a => mem_z a (d_ends m)) (d_starts m) in
  let skipped := zminus (d_starts m) (d_starts o) in
  list_eqb pair_eqb (d_rets m) (d_rets o) &&
  match zminus (d_starts o) (d_starts m) with [] => true | _ => false end &&
  match zminus skipped transient with [] => true | _ => false end &&
  list_eqb Z.eqb (sort_z (d_ends o ++ skipped)) (d_ends m) &&
  list_eqb Z.eqb (dobs_nums m) (dobs_nums o).

(* generic over the step function so that the termination check does not unfold kstep *)
Fixpoint gtrace {S X O : Type} (step : S -> X -> S) (obs : S -> S -> O) (s : S) (xs : list X) : list (X * O) :=
  match xs with
  | [] => []
  | x :: r => let s' := step s x in (x, obs s s') :: gtrace step obs s' r
  end.

Definition kobs (a b : denv * cst) : dobs := dobs_of (snd a) (fst b) (snd b).

Definition ctrace (es : denv * cst) (xs : list cstim) : list (cstim * dobs) := gtrace kstep kobs es xs.

Definition dmismatch (i : Z) (m o : dobs) : list Z :=
  [ERR_MISMATCH; i; zlen (d_rets m); zlen (d_rets o); zlen (d_starts m); zlen (d_starts o);
   zlen (d_ends m); zlen (d_ends o)] ++ dobs_nums m ++ dobs_nums o.

Fixpoint gconform {S X : Type} (step : S -> X -> S) (obs : S -> S -> dobs) (s : S) (i : Z)
         (tr : list (X * dobs)) : list Z :=
  match tr with
  | [] => []
  | (x, o) :: r =>
      let s' := step s x in
      let m := obs s s' in
      if dobs_eqb m o then gconform step obs s' (i + 1) r else dmismatch i m o
  end.

Definition conform_d (es : denv * cst) (i : Z) (tr : list (cstim * dobs)) : list Z :=
  gconform kstep kobs es i tr.

Definition conform_d_case (l : list Z) : list Z :=
  match skip_header l with
  | Some (fdl, ppl, fds, r) =>
      match decode_dtrace (S (length r)) r with
      | Some tr => conform_d (init_denv, init_c fdl ppl fds) 0 tr
      | None => [ERR_MALFORMED; 51]
      end
  | None => [ERR_MALFORMED; 50]
  end.

(* C05 — the limiter never invents a job: a property of jobs that holds for every job in the
   limiter (queued, about to run, dialing) and for every job added still holds after any step. *)
From Coq Require Import List ZArith Bool Lia.
From Verif Require Import c05.ModelLimiter c05.Proofs_Limiter.
Import ListNotations.
Local Open Scope Z_scope.

Section AllJobs.
  Variable P : job -> Prop.

  Record AllP (s : lim) : Prop := mkAllP {
    ap_wp : forall q x, In x (wl_get q (waitingOnPeer s)) -> P x;
    ap_wfd : forall x, In x (waitingOnFd s) -> P x;
    ap_sp : forall x, In x (spawned s) -> P x;
    ap_dl : forall x, In x (dialing s) -> P x }.

  Lemma add_check_fd_all : forall s j, P j -> AllP s -> AllP (add_check_fd s j).
  Proof.
    intros s j Hj [A B C D]. unfold add_check_fd.
    destruct (jfd j); [destruct (fdLimit s <=? fdConsuming s)|]; constructor; prj; auto;
      intros x Hx; apply in_app_or in Hx; destruct Hx as [Hx|[<-|[]]]; auto.
  Qed.

  Lemma peer_loop_all : forall wl s, (forall x, In x wl -> P x) -> AllP s -> AllP (peer_loop wl s).
  Proof.
    induction wl as [|n r IH]; intros s Hw H; cbn [peer_loop]; [exact H|].
    assert (H1 : AllP (set_wp s (wl_set (jpeer n) r (waitingOnPeer s)))).
    { destruct H as [A B C D]. constructor; prj; auto. intros q x. rewrite wl_get_set.
      destruct (jpeer n =? q); [intros Hx; apply Hw; right; exact Hx | apply A]. }
    destruct (is_cancelled _ n).
    - apply IH; [intros x Hx; apply Hw; right; exact Hx | exact H1].
    - apply add_check_fd_all; [apply Hw; left; reflexivity|]. destruct H1 as [A B C D]. constructor; prj; auto.
  Qed.

  Lemma free_peer_token_all : forall s j, AllP s -> AllP (free_peer_token s j).
  Proof.
    intros s j H. unfold free_peer_token. apply peer_loop_all.
    - prj. apply (ap_wp _ H).
    - destruct H as [A B C D]. constructor; prj; auto.
  Qed.

  Lemma fd_loop_all : forall f s, AllP s -> AllP (fd_loop f s).
  Proof.
    induction f as [|f IH]; intros s H; cbn [fd_loop]; [exact H|].
    destruct (waitingOnFd s) as [|n r] eqn:E; [exact H|]. destruct (fdConsuming s <? fdLimit s); [|exact H].
    assert (Hn : P n) by (apply (ap_wfd _ H); rewrite E; left; reflexivity).
    assert (H1 : AllP (set_wfd s r)).
    { destruct H as [A B C D]. constructor; prj; auto. intros x Hx. apply B. rewrite E. right. exact Hx. }
    destruct (is_cancelled _ n).
    - apply IH, free_peer_token_all, H1.
    - destruct H1 as [A B C D]. constructor; prj; auto.
      intros x Hx. apply in_app_or in Hx. destruct Hx as [Hx|[<-|[]]]; auto.
  Qed.

  Lemma finished_all : forall s j, AllP s -> AllP (finished s j).
  Proof.
    intros s j H. unfold finished. apply free_peer_token_all. destruct (jfd j); [|exact H].
    unfold free_fd_token. apply fd_loop_all. destruct H as [A B C D]. constructor; prj; auto.
  Qed.

  Lemma take_job_sub : forall id l j r, take_job id l = Some (j, r) -> In j l /\ incl r l.
  Proof.
    induction l as [|y l IH]; intros j r H; cbn [take_job] in H; [discriminate|].
    destruct (jid y =? id).
    - inversion H; subst. split; [left; reflexivity | apply incl_tl, incl_refl].
    - destruct (take_job id l) as [[z r']|]; [|discriminate]. inversion H; subst.
      destruct (IH _ _ eq_refl) as [A B]. split; [right; exact A|].
      intros x [<-|Hx]; [left; reflexivity | right; apply B, Hx].
  Qed.

  Lemma lstep_all : forall s o, (match o with LAdd j => P j | _ => True end) -> AllP s -> AllP (lstep s o).
  Proof.
    intros s o Ho H. destruct o as [j|g|p|id|id]; cbn [lstep].
    - unfold add_job. destruct (perPeerLimit s <=? _).
      + destruct H as [A B C D]. constructor; prj; auto. intros q x. rewrite wl_get_aput.
        destruct (jpeer j =? q); [|apply A]. intros Hx. apply in_app_or in Hx. destruct Hx as [Hx|[<-|[]]]; [eapply A; eauto | exact Ho].
      + apply add_check_fd_all; [exact Ho|]. destruct H as [A B C D]. constructor; prj; auto.
    - destruct H as [A B C D]. constructor; prj; auto.
    - unfold clear_peer. destruct H as [A B C D]. constructor; prj; auto. intros q x. rewrite wl_get_set.
      destruct (p =? q); [|apply A]. intros Hx. apply filter_In in Hx. eapply A. exact (proj1 Hx).
    - destruct (take_job id (spawned s)) as [[j r]|] eqn:E; [|exact H].
      destruct (take_job_sub _ _ _ _ E) as [Hj Hr].
      assert (H1 : AllP (set_spawned s r)) by (destruct H as [A B C D]; constructor; prj; auto).
      destruct (is_cancelled _ j); [apply finished_all, H1|].
      destruct H1 as [A B C D]. constructor; prj; auto.
      intros x Hx. apply in_app_or in Hx. destruct Hx as [Hx|[<-|[]]]; [auto | apply (ap_sp _ H), Hj].
    - destruct (take_job id (dialing s)) as [[j r]|] eqn:E; [|exact H].
      destruct (take_job_sub _ _ _ _ E) as [Hj Hr]. apply finished_all.
      destruct H as [A B C D]. constructor; prj; auto.
  Qed.
End AllJobs.

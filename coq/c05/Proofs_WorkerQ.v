(* C05 — worker facts used for monitor clause 9 (every candidate address is attempted): the dial
   timer, when armed with a non-empty queue, is due within the largest ranking delay; the
   addresses in flight are distinct and have all been handed to a transport. *)
From Coq Require Import List ZArith Bool Lia.
From Verif Require Import lib.Wire c05.ModelLimiter c05.Proofs_Limiter c05.ModelWorker c05.Proofs_Worker c05.Proofs_WorkerFly.
Import ListNotations.
Local Open Scope Z_scope.

Definition DB : Z := 2000000000.

Definition rank_bounded (rank : option (list (Z * Z))) : Prop :=
  match rank with Some rk => forall x, In x rk -> 0 <= snd x < DB | None => True end.

Definition DQB (w : wst) : Prop := forall x, In x (w_dq w) -> 0 <= snd x < DB.
Definition NU (w : wst) : Prop := forall a ad, tget a w = Some ad -> ad_upg ad = None.
Definition TQ (w : wst) : Prop :=
  match w_timer w with None => w_dq w = [] | Some t => w_dq w = [] \/ 0 <= t < DB end.

Record WT (w : wst) : Prop := mkWT { wt_dq : DQB w; wt_nu : NU w; wt_tq : TQ w }.

Lemma max_upg_none : forall t0 tr, (forall k ad, In (k, Some ad) tr -> ad_upg ad = None) -> max_upg t0 tr = t0.
Proof.
  induction tr as [|[k v] tr IH]; intros H; cbn [max_upg fold_right]; [reflexivity|]. fold (max_upg t0 tr).
  rewrite IH by (intros k' ad' X; apply (H k' ad'); right; exact X). cbn [snd]. destruct v as [ad|]; [|reflexivity].
  rewrite (H k ad (or_introl eq_refl)). reflexivity.
Qed.

Lemma NU_in : forall w k ad, NU w -> NoDup (map fst (w_tracked w)) -> In (k, Some ad) (w_tracked w) -> ad_upg ad = None.
Proof.
  intros w k ad H N Hi. apply (H k ad). unfold tget.
  clear H. induction (w_tracked w) as [|[k' v'] m IH]; [destruct Hi|]. cbn [aget]. cbn [map fst] in N.
  apply NoDup_cons_iff in N. destruct N as [N1 N2]. destruct Hi as [Hi|Hi].
  - inversion Hi; subst. rewrite Z.eqb_refl. reflexivity.
  - destruct (k' =? k) eqn:E; [|apply IH; assumption]. apply Z.eqb_eq in E. subst k'. exfalso. apply N1.
    change k with (fst (k, Some ad)). apply in_map, Hi.
Qed.

(* the keys of the tracked-dials table stay distinct (aput) *)
Definition TK (w : wst) : Prop := NoDup (map fst (w_tracked w)).

Lemma adel_keys_w : forall (V : Type) k (m : list (Z * V)), NoDup (map fst m) ->
  NoDup (map fst (adel k m)) /\ ~ In k (map fst (adel k m)) /\ incl (map fst (adel k m)) (map fst m).
Proof.
  induction m as [|[k' v] m IH]; intros N; cbn [adel map fst]; [split; [constructor | split; [intros [] | apply incl_refl]]|].
  cbn [map fst] in N. apply NoDup_cons_iff in N. destruct N as [H1 H2]. destruct (IH H2) as [A [B C]]. destruct (k' =? k) eqn:E.
  - split; [exact A|]. split; [exact B | apply incl_tl, C].
  - cbn [map fst]. split; [constructor; [intros X; apply H1, C, X | exact A]|]. split.
    + intros [X|X]; [apply Z.eqb_neq in E; contradiction | contradiction].
    + intros x [X|X]; [left; exact X | right; apply C, X].
Qed.

Lemma TK_tput : forall w a ad, TK w -> TK (tput a ad w).
Proof. intros w a ad N. unfold TK, tput, aput in *. wprj. cbn [map fst]. destruct (adel_keys_w _ a _ N) as [A [B _]]. constructor; assumption. Qed.
Lemma TK_tdel : forall w a, TK w -> TK (tdel a w).
Proof. intros w a N. unfold TK, tdel in *. wprj. apply (adel_keys_w _ a _ N). Qed.
Lemma TK_ext : forall w w', TK w -> w_tracked w' = w_tracked w -> TK w'.
Proof. intros w w' N E. unfold TK. rewrite E. exact N. Qed.

Lemma schedule_TQ : forall w, DQB w -> NU w -> TK w -> TQ (schedule w).
Proof.
  intros w D N K. unfold schedule, TQ. destruct (w_dq w) as [|top r] eqn:E; wprj; [exact E|].
  destruct ((w_inflight w =? 0) && negb (w_connected w)); wprj; right; [unfold DB; lia|].
  rewrite max_upg_none by (intros k ad X; eapply NU_in; eauto). apply D. rewrite E. left. reflexivity.
Qed.

Lemma WT_schedule : forall w, DQB w -> NU w -> TK w -> WT (schedule w) /\ TK (schedule w).
Proof.
  intros w D N K. destruct (schedule_same w) as [_ [_ [_ [Et [Eq _]]]]]. split; [|eapply TK_ext; eauto].
  constructor; [intros x; rewrite Eq; apply D | intros a ad; unfold tget; rewrite Et; apply N | apply schedule_TQ; assumption].
Qed.

Lemma dq_add_in : forall y q x, In x (dq_add y q) -> x = y \/ In x q.
Proof.
  induction q as [|z r IH]; intros x H; cbn [dq_add] in H; [destruct H as [<-|[]]; left; reflexivity|].
  destruct (existsb _ (z :: r)).
  - destruct H as [<-|H]; [right; left; reflexivity|]. destruct (IH x H) as [X|X]; [left; exact X | right; right; exact X].
  - destruct H as [<-|H]; [left; reflexivity | right; exact H].
Qed.

Lemma dq_scan_in : forall a d n q, (length q <= n)%nat -> forall q', dq_scan a d q = Some q' -> incl q' q.
Proof.
  induction n as [|n IH]; intros q Hl q' H.
  - destruct q; [|cbn in Hl; lia]. cbn in H. inversion H. apply incl_refl.
  - destruct q as [|y r]; [cbn in H; inversion H; apply incl_refl|]. cbn [dq_scan] in H. cbn [length] in Hl.
    destruct (fst y =? a).
    + destruct (snd y =? d); [discriminate|]. destruct r as [|z r'].
      * inversion H. intros x [].
      * destruct (dq_scan a d r') as [q1|] eqn:E; [|discriminate]. cbn [option_map] in H. inversion H.
        assert (X : incl q1 r') by (apply (IH r'); [cbn [length] in Hl; lia | exact E]).
        intros x [<-|Hx]; [right; left; reflexivity | right; right; apply X, Hx].
    + destruct (dq_scan a d r) as [q1|] eqn:E; [|discriminate]. cbn [option_map] in H. inversion H.
      assert (X : incl q1 r) by (apply (IH r); [lia | exact E]).
      intros x [<-|Hx]; [left; reflexivity | right; apply X, Hx].
Qed.

Lemma dq_uoa_in : forall a d q x, In x (dq_update_or_add a d q) -> x = (a, d) \/ In x q.
Proof.
  intros a d q x H. unfold dq_update_or_add in H. destruct (dq_scan a d q) as [q'|] eqn:E; [|right; exact H].
  apply dq_add_in in H. destruct H as [H|H]; [left; exact H | right; eapply dq_scan_in; eauto].
Qed.

Lemma delay_of_range : forall a rk, (forall x, In x rk -> 0 <= snd x < DB) -> 0 <= delay_of a rk < DB.
Proof.
  induction rk as [|[x d] r IH]; intros H; cbn [delay_of]; [unfold DB; lia|].
  destruct (memz a (map fst r)); [apply IH; intros y Hy; apply H; right; exact Hy|].
  destruct (x =? a); [apply (H (x, d)); left; reflexivity | unfold DB; lia].
Qed.

Record WTK (w : wst) : Prop := mkWTK { k_wt : WT w; k_tk : TK w }.

Lemma TQ_ext : forall w w', TQ w -> w_timer w' = w_timer w -> w_dq w' = w_dq w -> TQ w'.
Proof. intros w w' H Et Eq. unfold TQ in *. rewrite Et, Eq. exact H. Qed.

Lemma NU_tput : forall w a ad, NU w -> ad_upg ad = None -> NU (tput a ad w).
Proof.
  intros w a ad H Ha x adx. unfold tget, tput. wprj. rewrite aget_aput. destruct (a =? x); [intros X; inversion X; subst; exact Ha | apply H].
Qed.

Lemma NU_ext : forall w w', NU w -> w_tracked w' = w_tracked w -> NU w'.
Proof. intros w w' H E a ad. unfold tget. rewrite E. apply H. Qed.

(* the parts of the state that the loops of a request leave alone or extend within the bounds *)
Record DNK (w : wst) : Prop := mkDNK { d_dq : DQB w; d_nu : NU w; d_tk : TK w }.

Lemma join_loop_dnk : forall sim rk tj w, (forall x, In x rk -> 0 <= snd x < DB) -> DNK w -> DNK (join_loop sim rk tj w).
Proof.
  induction tj as [|a r IH]; intros w Hr H; cbn [join_loop]; [exact H|]. apply IH; [exact Hr|].
  destruct (tget a w) as [ad|] eqn:Et; [|exact H]. destruct (negb (ad_dialed ad) && sim && negb (ad_sim ad)); [|exact H].
  destruct H as [D N K]. constructor.
  - intros x Hx. wprj. apply dq_uoa_in in Hx. destruct Hx as [->|Hx]; [cbn [snd]; apply delay_of_range, Hr | apply D, Hx].
  - eapply NU_ext with (w := tput a (ad_set_sim ad) w); [|reflexivity]. apply NU_tput; [exact N|]. cbn. apply (N a ad Et).
  - eapply TK_ext with (w := tput a (ad_set_sim ad) w); [|reflexivity]. apply TK_tput, K.
Qed.

Lemma todial_loop_dnk : forall sim fdir rk td w, (forall x, In x rk -> 0 <= snd x < DB) -> DNK w -> DNK (todial_loop sim fdir rk td w).
Proof.
  induction td as [|a r IH]; intros w Hr H; cbn [todial_loop]; [exact H|]. apply IH; [exact Hr|].
  destruct H as [D N K]. constructor.
  - intros x Hx. wprj. apply dq_add_in in Hx. destruct Hx as [->|Hx]; [cbn [snd]; apply delay_of_range, Hr | apply D, Hx].
  - eapply NU_ext with (w := tput a (mkAd false DPending fdir sim None) w); [|reflexivity]. apply NU_tput; [exact N | reflexivity].
  - eapply TK_ext with (w := tput a (mkAd false DPending fdir sim None) w); [|reflexivity]. apply TK_tput, K.
Qed.

Lemma dispatch_error_dnk : forall w a e bl, DNK w -> DNK (dispatch_error w a e bl).
Proof.
  intros w a e bl [D N K]. unfold dispatch_error.
  set (s1 := match tget a w with Some ad => tput a (ad_set_st ad DErr) w | None => w end).
  assert (H1 : DNK s1).
  { unfold s1. destruct (tget a w) as [ad|] eqn:Et; [|constructor; assumption]. constructor.
    - exact D.
    - apply NU_tput; [exact N|]. cbn. apply (N a ad Et).
    - apply TK_tput, K. }
  destruct (disp_loop a bl (w_pending s1)) as [keep out].
  assert (H2 : DNK (set_resps (set_pending s1 keep) (w_resps s1 ++ out))).
  { destruct H1 as [D1 N1 K1]. constructor; [exact D1 | eapply NU_ext; [exact N1 | reflexivity] | eapply TK_ext; [exact K1 | reflexivity]]. }
  destruct e; try exact H2. destruct H2 as [D2 N2 K2]. constructor.
  - exact D2.
  - intros x adx. unfold tget, tdel. wprj. rewrite aget_adel. destruct (a =? x); [discriminate | apply N2].
  - apply TK_tdel, K2.
Qed.

Lemma batch_loop_dnk : forall bo bl batch w, DNK w -> DNK (batch_loop bo bl batch w).
Proof.
  induction batch as [|[a d] r IH]; intros w H; cbn [batch_loop]; [exact H|]. apply IH.
  destruct (tget a w) as [ad|] eqn:Et; [|exact H]. cbv zeta.
  assert (H1 : DNK (tput a (ad_set_dialed ad) w)).
  { destruct H as [D N K]. constructor; [exact D | apply NU_tput; [exact N | cbn; apply (N a ad Et)] | apply TK_tput, K]. }
  destruct (negb (ad_fdir ad) && memz a bo).
  - apply dispatch_error_dnk. destruct H1 as [D1 N1 K1]. constructor; [exact D1 | eapply NU_ext; [exact N1|reflexivity] | eapply TK_ext; [exact K1|reflexivity]].
  - destruct H1 as [D1 N1 K1]. constructor; [exact D1 | eapply NU_ext; [exact N1|reflexivity] | eapply TK_ext; [exact K1|reflexivity]].
Qed.

Definition ev_b (e : wev) : Prop :=
  match e with
  | WReq _ _ _ _ rank => rank_bounded rank
  | WRes _ r _ => match r with DRProgress _ _ => False | _ => True end
  | _ => True
  end.

Lemma DNK_ext : forall w w', DNK w -> w_dq w' = w_dq w -> w_tracked w' = w_tracked w -> DNK w'.
Proof.
  intros w w' [D N K] Eq Et. constructor; [intros x; rewrite Eq; apply D | eapply NU_ext; eauto | eapply TK_ext; eauto].
Qed.

Lemma WTK_of : forall w, DNK w -> TQ w -> WTK w.
Proof. intros w [D N K] T. constructor; [constructor; assumption | exact K]. Qed.

Lemma WTK_dnk : forall w, WTK w -> DNK w.
Proof. intros w [[D N _] K]. constructor; assumption. Qed.

Lemma WTK_sched : forall w, DNK w -> WTK (schedule w).
Proof. intros w [D N K]. destruct (WT_schedule w D N K) as [A B]. constructor; assumption. Qed.

Lemma dispatch_error_tq : forall w a e bl, w_dq (dispatch_error w a e bl) = w_dq w /\ w_timer (dispatch_error w a e bl) = w_timer w.
Proof. intros. unfold dispatch_error. destruct (tget a w); destruct (disp_loop _ _ _); destruct e; split; reflexivity. Qed.

Lemma wstep_wtk : forall w e, WTK w -> ev_b e -> WTK (wstep w e).
Proof.
  intros w e H He. unfold wstep. destruct (w_stopped w); [exact H|]. pose proof (WTK_dnk w H) as Dk. pose proof (wt_tq _ (k_wt _ H)) as Tq.
  destruct e as [rid sim fdir best rank|bo bestl|a r bestl|]; cbn [ev_b] in He.
  - unfold on_request. cbv zeta. set (s0 := set_seen w (w_seen w ++ [rid])).
    assert (R : forall k, WTK (respond s0 rid k)).
    { intros k. apply WTK_of; [eapply DNK_ext; [exact Dk|reflexivity|reflexivity] | eapply TQ_ext; [exact Tq|reflexivity|reflexivity]]. }
    destruct best; [apply R|]. destruct rank as [rk|]; [|apply R]. cbn [rank_bounded] in He.
    destruct (scan s0 rk [] [] []) as [|td tj ed]; [apply R|].
    assert (P : forall pr, WTK (schedule (todial_loop sim fdir rk td (join_loop sim rk tj (set_pending s0 pr))))).
    { intros pr. apply WTK_sched, todial_loop_dnk, join_loop_dnk; try exact He. eapply DNK_ext; [exact Dk|reflexivity|reflexivity]. }
    destruct td; [destruct tj|]; try apply P. apply R.
  - unfold on_timer. destruct (next_batch (w_dq w)) as [batch rest] eqn:En. apply WTK_sched, batch_loop_dnk.
    destruct Dk as [D N K]. constructor; [|eapply NU_ext; [exact N|reflexivity] | eapply TK_ext; [exact K|reflexivity]].
    intros x Hx. wprj. apply D. apply next_batch_app in En. rewrite En. apply in_or_app. right. exact Hx.
  - unfold on_result. destruct (tget a w) as [ad|] eqn:Et.
    2:{ apply WTK_of; [eapply DNK_ext; [exact Dk|reflexivity|reflexivity] | eapply TQ_ext; [exact Tq|reflexivity|reflexivity]]. }
    set (s1 := set_flying (set_inflight w (w_inflight w - 1)) (remove1 a (w_flying w))).
    assert (D2 : DNK (tput a (ad_set_upg ad None) s1)).
    { destruct Dk as [D N K]. constructor; [exact D | apply NU_tput; [eapply NU_ext; [exact N|reflexivity] | reflexivity] |
        apply TK_tput; eapply TK_ext; [exact K|reflexivity]]. }
    destruct r as [addok|e|pub now]; [|apply WTK_sched, dispatch_error_dnk, D2|destruct He].
    destruct addok.
    + destruct (succ_loop a _) as [keep out]. apply WTK_of; [|eapply TQ_ext; [exact Tq|reflexivity|reflexivity]].
      destruct D2 as [D N K]. constructor.
      * exact D.
      * eapply NU_ext with (w := tput a (ad_set_st (ad_set_upg ad None) DConn) (tput a (ad_set_upg ad None) s1)); [|reflexivity].
        apply NU_tput; [exact N | reflexivity].
      * eapply TK_ext with (w := tput a (ad_set_st (ad_set_upg ad None) DConn) (tput a (ad_set_upg ad None) s1)); [|reflexivity].
        apply TK_tput, K.
    + apply WTK_of; [apply dispatch_error_dnk, D2|]. destruct (dispatch_error_tq (tput a (ad_set_upg ad None) s1) a EOther bestl) as [E1 E2].
      eapply TQ_ext; [exact Tq | rewrite E2; reflexivity | rewrite E1; reflexivity].
  - apply WTK_of; [eapply DNK_ext; [exact Dk|reflexivity|reflexivity] | eapply TQ_ext; [exact Tq|reflexivity|reflexivity]].
Qed.

Lemma WTK_init : WTK init_w.
Proof.
  constructor; [constructor|]; cbn.
  - intros x [].
  - intros a ad H. discriminate.
  - left. reflexivity.
  - constructor.
Qed.

(* ---- the addresses in flight ----------------------------------------------------------------------- *)
Record FL (w : wst) : Prop := mkFL { fl_in : incl (w_flying w) (w_dials w); fl_nd : NoDup (w_flying w) }.

Lemma remove1_incl : forall a l, incl (remove1 a l) l.
Proof.
  induction l as [|y l IH]; cbn [remove1]; [apply incl_refl|]. destruct (y =? a); [apply incl_tl, incl_refl|].
  intros x [<-|Hx]; [left; reflexivity | right; apply IH, Hx].
Qed.

Lemma remove1_nodup : forall a l, NoDup l -> NoDup (remove1 a l) /\ ~ In a (remove1 a l).
Proof.
  induction l as [|y l IH]; intros N; cbn [remove1]; [split; [constructor | intros []]|]. inversion N; subst.
  destruct (y =? a) eqn:E.
  - apply Z.eqb_eq in E. subst y. split; assumption.
  - destruct (IH H2) as [A B]. split; [constructor; [intros X; apply H1, (remove1_incl a l), X | exact A]|].
    intros [X|X]; [apply Z.eqb_neq in E; contradiction | contradiction].
Qed.

Lemma nodup_app_r : forall (a b : list Z), NoDup (a ++ b) -> NoDup b.
Proof. induction a as [|x a IH]; intros b N; [exact N|]. cbn [app] in N. inversion N; subst. apply IH; assumption. Qed.

Lemma nodup_app_disj_w : forall (a b : list Z) x, NoDup (a ++ b) -> In x a -> In x b -> False.
Proof.
  induction a as [|y a IH]; intros b x N Ha Hb; [destruct Ha|]. cbn [app] in N. inversion N; subst.
  destruct Ha as [->|Ha]; [apply H1, in_or_app; right; exact Hb | eapply IH; eauto].
Qed.

Lemma nodup_app_sub : forall (f d l : list Z), NoDup (d ++ l) -> incl f d -> NoDup f -> NoDup (f ++ l).
Proof.
  induction f as [|y f IH]; intros d l Nd I N; cbn [app]; [eapply nodup_app_r; eauto|]. inversion N; subst. constructor.
  - intros X. apply in_app_or in X. destruct X as [X|X]; [contradiction|].
    apply (nodup_app_disj_w d l y Nd); [apply I; left; reflexivity | exact X].
  - eapply IH; eauto. intros x Hx. apply I. right. exact Hx.
Qed.

Lemma wstep_FL : forall w e, FL w -> NoDup (w_dials (wstep w e)) -> FL (wstep w e).
Proof.
  intros w e [I N] Nd. destruct (w_stopped w) eqn:St; [unfold wstep; rewrite St; constructor; assumption|].
  pose proof (wstep_df w e St) as D. destruct e as [rid sim fdir best rank|bo bestl|a r bestl|].
  - destruct D as [D1 D2]. constructor; rewrite D2, ?D1; assumption.
  - destruct D as [l [D1 D2]]. rewrite D1 in Nd. constructor; rewrite D2, ?D1.
    + intros x Hx. apply in_app_or in Hx. apply in_or_app. destruct Hx as [Hx|Hx]; [left; apply I, Hx | right; exact Hx].
    + eapply nodup_app_sub; eauto.
  - destruct (tget a w) as [ad|] eqn:Et.
    + destruct D as [D1 D2]; [congruence|]. constructor; rewrite D2, ?D1.
      * destruct r; try exact I; (eapply incl_tran; [apply remove1_incl | exact I]).
      * destruct r; try exact N; apply remove1_nodup, N.
    + unfold wstep, on_result. rewrite St, Et. wprj. constructor; wprj.
      * eapply incl_tran; [apply remove1_incl | exact I].
      * apply remove1_nodup, N.
  - destruct D as [D1 D2]. constructor; rewrite D2, ?D1; assumption.
Qed.

(* C05 — composite LTS, part 6: no live job is ever lost, for every schedule (true since
   clearAllPeerDials keeps the jobs whose context is not done). *)
From Coq Require Import List ZArith Bool Lia Permutation.
From Verif Require Import c05.ModelLimiter c05.Proofs_Limiter c05.SpecLimiter c05.Proofs_LimiterMon.
From Verif Require Import c05.ModelWorker c05.Proofs_Worker c05.Proofs_WorkerMon c05.Proofs_WorkerFly.
From Verif Require Import c05.ModelSync c05.Proofs_Sync c05.ModelComposite.
From Verif Require Import c05.Proofs_Composite c05.Proofs_Composite2 c05.Proofs_Composite3 c05.Proofs_Composite4 c05.Proofs_Composite5.
Import ListNotations.
Local Open Scope Z_scope.

Lemma take_job_id : forall id l j r, take_job id l = Some (j, r) -> jid j = id.
Proof.
  induction l as [|y l IH]; intros j r H; cbn [take_job] in H; [discriminate|].
  destruct (jid y =? id) eqn:E.
  - inversion H; subst. apply Z.eqb_eq, E.
  - destruct (take_job id l) as [[z r']|]; [|discriminate]. inversion H; subst. eapply IH; eauto.
Qed.

Lemma add_job_dialing : forall l j, dialing (add_job l j) = dialing l.
Proof.
  intros. unfold add_job. destruct (perPeerLimit l <=? _); [reflexivity|].
  match goal with |- context [add_check_fd ?x j] => destruct (add_check_fd_lims x j) as [_ [_ [_ E]]] end. exact E.
Qed.

(* one limiter step keeps a live job in its place, unless the step is the one that takes it out *)
Lemma lstep_place : forall l o x, Inv l -> is_cancelled (lstep l o) x = false -> Place l x ->
  match o with
  | LReturn id => jid x <> id
  | _ => True
  end -> Place (lstep l o) x.
Proof.
  intros l o x I Hl P Ho. destruct o as [j|g|p|id|id].
  - destruct P as [P|P]; [left; apply (stim_inq l (SAdd j)); auto | right; cbn [lstep]; rewrite add_job_dialing; exact P].
  - exact P.
  - destruct P as [P|P]; [|right; exact P]. left. destruct P as [[q H]|[H|H]]; [|right; left; exact H | right; right; exact H].
    left. exists q. cbn [lstep]. unfold clear_peer. prj. rewrite wl_get_set.
    destruct (p =? q) eqn:E; [|exact H]. apply Z.eqb_eq in E. subst q.
    apply filter_In. split; [exact H|]. apply negb_true_iff. exact Hl.
  - assert (Hc : is_cancelled l x = false).
    { rewrite <- Hl. symmetry. apply is_cancelled_eq. rewrite lstep_cancG. reflexivity. }
    destruct P as [P|P]; apply (begin_place l id x I Hc); [left | right]; exact P.
  - destruct P as [P|P]; [left; apply (stim_inq l (SReturn id)); auto|].
    right. cbn [lstep]. destruct (take_job id (dialing l)) as [[j r]|] eqn:E; [|exact P].
    rewrite finished_dialing. prj. destruct (take_job_in _ _ _ _ _ E P) as [->|G]; [|exact G].
    apply take_job_id in E. congruence.
Qed.

Definition live_in (l : lim) (x : job) : Prop := ~ In (jgrp x) (cancelledG l).

Lemma live_not_cancelled : forall l x, ~ In (jgrp x) (cancelledG l) -> is_cancelled l x = false.
Proof. intros l x H. apply is_cancelled_false, H. Qed.

(* NLJ through a state change that applies one limiter step and leaves the job table alone *)
Lemma nlj_limop : forall s o, Inv (c_lim s) -> NLJ s ->
  (forall n j x, jget n s = Some j -> jr_reported j = false -> jid x = n -> jgrp x = jr_gen j ->
       ~ In (jr_gen j) (cancelledG (lstep (c_lim s) o)) ->
       match o with
       | LReturn id => jid x <> id
       | _ => True end) ->
  NLJ (lim_do s o).
Proof.
  intros s o I N Ho n j Hj Hr Hl. cprj.
  assert (Hl0 : ~ In (jr_gen j) (cancelledG (c_lim s))).
  { intros H. apply Hl. rewrite lstep_cancG. destruct o; try exact H. right. exact H. }
  destruct (N n j Hj Hr Hl0) as [x [X1 [X2 X3]]]. exists x. split; [exact X1|]. split; [exact X2|].
  apply lstep_place; auto.
  - apply live_not_cancelled. rewrite X2. exact Hl.
  - apply (Ho n j x); auto.
Qed.

Lemma nlj_same : forall s s', NLJ s -> c_lim s' = c_lim s ->
  (forall n j', jget n s' = Some j' -> jr_reported j' = false ->
       exists j, jget n s = Some j /\ jr_reported j = false /\ jr_gen j = jr_gen j') -> NLJ s'.
Proof.
  intros s s' N El Hj n j' H1 H2 H3. destruct (Hj n j' H1 H2) as [j [A [B C]]].
  rewrite El in *. rewrite <- C in *. apply (N n j A B H3).
Qed.

Lemma nlj_eq : forall s s', NLJ s -> c_lim s' = c_lim s -> c_jobs s' = c_jobs s -> NLJ s'.
Proof.
  intros s s' N El Ej. apply (nlj_same s s' N El). intros n j H1 H2. exists j. unfold jget in *. rewrite <- Ej. auto.
Qed.

Definition JIds (s : cst) : Prop := forall n j, jget n s = Some j -> n < c_next s.

Lemma nlj_add_job : forall s g p a, Inv (c_lim s) -> JIds s -> NLJ s ->
  NLJ (add_addr_job g p s a) /\ JIds (add_addr_job g p s a) /\ Inv (c_lim (add_addr_job g p s a)).
Proof.
  intros s g p a I Hid N. unfold add_addr_job. set (n := c_next s). set (x := mkJob n p (memz a (c_fd s)) g).
  assert (Fr : jget n s = None).
  { destruct (jget n s) as [j|] eqn:E; [|reflexivity]. apply Hid in E. unfold n in E. lia. }
  assert (N1 : NLJ (lim_do s (LAdd x))) by (apply nlj_limop; auto).
  split; [|split].
  - intros n' j'. unfold jget. cprj. rewrite aget_aput. destruct (n =? n') eqn:En.
    + intros H _ _. inversion H; subst j'. apply Z.eqb_eq in En. subst n'. exists x. cbn [jr_gen].
      split; [reflexivity|]. split; [reflexivity|]. left. cbn [lstep]. apply add_inq_new.
    + intros H1 H2 H3. apply (N1 n' j'); auto.
  - intros n' j'. unfold jget. cprj. rewrite aget_aput. destruct (n =? n') eqn:En.
    + intros _. apply Z.eqb_eq in En. unfold n in En. lia.
    + intros H. apply Hid in H. unfold n. lia.
  - cprj. apply lstep_inv, I.
Qed.

Lemma nlj_add_jobs : forall g p news s, Inv (c_lim s) -> JIds s -> NLJ s ->
  NLJ (fold_left (add_addr_job g p) news s).
Proof.
  induction news as [|a r IH]; intros s I Hid N; cbn [fold_left]; [exact N|].
  destruct (nlj_add_job s g p a I Hid N) as [A [B C]]. apply IH; auto.
Qed.

Lemma nlj_do_leave : forall s c r k, Inv (c_lim s) -> NLJ s -> NLJ (do_leave s c r k).
Proof.
  intros s c r k I N. unfold do_leave.
  set (s1 := set_sync s (sstep (c_sync s) (SLeave c (cr_peer r)))).
  set (s2 := set_rets (cput c (set_phase r PReturned) s1) (c_rets s1 ++ [(c, k)])).
  assert (N2 : NLJ s2) by (apply (nlj_eq s); [exact N | reflexivity | reflexivity]).
  fold s1. fold s2. destruct (p_active _); [exact N2|].
  set (s3 := lim_do s2 (LCancel (cr_gen r))).
  assert (N3 : NLJ s3) by (apply nlj_limop; auto).
  apply (nlj_eq s3); [exact N3 | reflexivity | reflexivity].
Qed.

Lemma cstep_nlj : forall s l, Inv (c_lim s) -> JIds s -> NLJ s -> NLJ (cstep s l).
Proof.
  intros s l I Hid N. destruct l; cbn [cstep].
  - destruct (cget c s); [exact N|]. destruct best.
    + all: try exact N; try (apply (nlj_eq s); [exact N | reflexivity | reflexivity]).
    + destruct (p_active _); cprj.
      * destruct (aget None p (c_gen s)); [|exact N].
        all: try exact N; try (apply (nlj_eq s); [exact N | reflexivity | reflexivity]).
      * all: try exact N; try (apply (nlj_eq s); [exact N | reflexivity | reflexivity]).
  - destruct (cget c s) as [r|]; [|exact N]. destruct (cr_phase r); exact N.
  - destruct (g <? c_next s); [|exact N]. apply nlj_add_jobs; auto.
    all: try exact N; try (apply (nlj_eq s); [exact N | reflexivity | reflexivity]).
  - apply nlj_limop; auto.
  - destruct (jget n s) as [j|] eqn:Ej; [|exact N]. destruct (negb (jr_reported j) && _) eqn:Ec; [|exact N].
    apply andb_true_iff in Ec. destruct Ec as [Ec _]. apply negb_true_iff in Ec.
    eapply nlj_same; [exact N | reflexivity|]. intros n' j'. unfold jget. cprj. rewrite aget_aput.
    destruct (n =? n') eqn:En.
    + apply Z.eqb_eq in En. subst n'. intros H _. inversion H; subst j'. exists j. auto.
    + intros H1 H2. exists j'. auto.
  - destruct (jget n s) as [j|] eqn:Ej; [|exact N]. destruct (jr_reported j) eqn:Er; [|exact N].
    apply nlj_limop; auto. intros n' j' x H1 H2 H3 _ _ Heq. rewrite H3 in Heq. subst n'. congruence.
  - destruct (cget c s) as [r|]; [|exact N].
    assert (X : NLJ (cput c (set_canc r) s)) by (apply (nlj_eq s); [exact N | reflexivity | reflexivity]).
    destruct (cr_phase r); [exact X | exact X | exact N].
  - destruct (cget c s) as [r|]; [|exact N]. destruct (cr_phase r); try exact N.
    + destruct (cr_canc r); [apply nlj_do_leave; auto | exact N].
    + destruct (resp_of c _) as [[|]|]; try (apply nlj_do_leave; auto).
      destruct (cr_canc r); [apply nlj_do_leave; auto | exact N].
  - destruct (memz g (c_stale s)); [|exact N].
    assert (X : NLJ (lim_do s (LClear (aget 0 g (c_gpeer s))))).
    { apply nlj_limop; auto. }
    apply (nlj_eq (lim_do s (LClear (aget 0 g (c_gpeer s))))); [exact X | reflexivity | reflexivity].
Qed.

Lemma winv_jids : forall s, WInv s -> JIds s.
Proof. intros s W n j H. destruct (w_ids s W n j H). assumption. Qed.

Lemma no_lost_job_l : forall fdl ppl fd ls, 0 <= fdl -> 0 <= ppl -> Forall wf_label ls ->
  NLJ (reach fdl ppl fd ls).
Proof.
  intros fdl ppl fd ls H1 H2. unfold reach.
  assert (G : forall ls s, CInv fdl ppl s -> NLJ s -> Forall wf_label ls -> NLJ (crun s ls)).
  { induction ls0 as [|l r IH]; intros s C N F; cbn [crun fold_left]; [exact N|].
    inversion F; subst. apply IH; auto.
    - apply cstep_cinv; auto.
    - destruct C as [[[I _ _] _] _ _ W _]. apply cstep_nlj; auto. apply (winv_jids s W). }
  intros F. apply G; auto; [apply init_cinv; assumption|]. intros n j H. discriminate.
Qed.

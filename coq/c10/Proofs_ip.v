(* C10 — bit-level facts about IP forms, masks and subnets. *)
From Coq Require Import List NArith ZArith Bool Lia.
From Verif Require Import lib.Wire c10.Model c10.Spec.
Import ListNotations.
Local Open Scope N_scope.
Local Opaque N.shiftr N.shiftl N.land N.lor N.ones N.pow N.testbit.

(* ---- testbit characterisations ----------------------------------------- *)
Lemma testbit_ones : forall n i, N.testbit (N.ones n) i = (i <? n).
Proof.
  intros n i. destruct (N.ltb_spec i n) as [H|H].
  - apply N.ones_spec_low; lia.
  - apply N.ones_spec_high; lia.
Qed.

Lemma testbit_cidr_mask : forall b k i, k <= b ->
  N.testbit (cidr_mask b k) i = (b - k <=? i) && (i <? b).
Proof.
  intros b k i Hk. unfold cidr_mask.
  destruct (N.leb_spec (b - k) i) as [H|H].
  - rewrite N.shiftl_spec_high' by lia. rewrite testbit_ones. cbn [andb].
    destruct (N.ltb_spec (i - (b - k)) k), (N.ltb_spec i b); try reflexivity; lia.
  - rewrite N.shiftl_spec_low by lia. reflexivity.
Qed.

Lemma testbit_above : forall x b i, x < 2 ^ b -> b <= i -> N.testbit x i = false.
Proof.
  intros x b i Hx Hi. destruct (N.eq_dec x 0) as [->|Hz]; [apply N.bits_0|].
  apply N.bits_above_log2. apply N.log2_lt_pow2 in Hx; lia.
Qed.

Lemma shiftl1_pow : forall n, N.shiftl 1 n = 2 ^ n.
Proof. intros. rewrite N.shiftl_1_l. reflexivity. Qed.

(* x & CIDRMask(k, b) keeps the top k of b bits *)
Lemma land_cidr_mask : forall b k x, k <= b -> x < 2 ^ b ->
  N.land x (cidr_mask b k) = N.shiftl (N.shiftr x (b - k)) (b - k).
Proof.
  intros b k x Hk Hx. apply N.bits_inj. intro i.
  rewrite N.land_spec, testbit_cidr_mask by assumption.
  destruct (N.leb_spec (b - k) i) as [H|H].
  - rewrite N.shiftl_spec_high' by lia. rewrite N.shiftr_spec'.
    replace (i - (b - k) + (b - k)) with i by lia. cbn [andb].
    destruct (N.ltb_spec i b) as [H2|H2]; [apply andb_true_r|].
    rewrite (testbit_above x b i) by assumption. reflexivity.
  - rewrite N.shiftl_spec_low by lia. apply andb_false_r.
Qed.

Lemma shiftl_inj : forall a b n, N.shiftl a n = N.shiftl b n -> a = b.
Proof.
  intros a b n H. rewrite !N.shiftl_mul_pow2 in H.
  apply N.mul_cancel_r in H; [assumption|]. apply N.pow_nonzero. lia.
Qed.

Lemma masked_eq_iff : forall b k x y, k <= b -> x < 2 ^ b -> y < 2 ^ b ->
  (N.land x (cidr_mask b k) =? N.land y (cidr_mask b k)) = (N.shiftr x (b - k) =? N.shiftr y (b - k)).
Proof.
  intros b k x y Hk Hx Hy. rewrite !land_cidr_mask by assumption.
  destruct (N.eqb_spec (N.shiftr x (b - k)) (N.shiftr y (b - k))) as [E|E].
  - rewrite E. apply N.eqb_refl.
  - apply N.eqb_neq. intro H. apply E. eapply shiftl_inj; eassumption.
Qed.

(* the last four bytes of a 16-byte CIDR mask: m[12:] *)
Lemma mask16_low32 : forall n, n <= 128 ->
  N.land (cidr_mask 128 n) (N.ones 32) = cidr_mask 32 (n - 96).
Proof.
  intros n Hn. apply N.bits_inj. intro i.
  rewrite N.land_spec, testbit_ones, !testbit_cidr_mask by lia.
  destruct (N.leb_spec (128 - n) i), (N.ltb_spec i 128), (N.ltb_spec i 32),
    (N.leb_spec (32 - (n - 96)) i); cbn; try reflexivity; lia.
Qed.

Lemma land_idem_mask : forall x m, N.land (N.land x m) m = N.land x m.
Proof. intros. rewrite <- N.land_assoc, N.land_diag. reflexivity. Qed.

(* ---- the two forms of an IPv4 address ----------------------------------- *)
Definition mapped (v : N) : N := N.lor (N.shiftl 65535 32) v.

Lemma mapped_hi : forall v, v < 2 ^ 32 -> N.shiftr (mapped v) 32 = 65535.
Proof.
  intros v Hv. unfold mapped. rewrite N.shiftr_lor, N.shiftr_shiftl_l by lia.
  rewrite N.sub_diag, N.shiftl_0_r.
  replace (N.shiftr v 32) with 0; [reflexivity|].
  symmetry. rewrite N.shiftr_div_pow2. apply N.div_small. assumption.
Qed.

Lemma mapped_lo : forall v, v < 2 ^ 32 -> N.land (mapped v) (N.ones 32) = v.
Proof.
  intros v Hv. unfold mapped. rewrite N.land_lor_distr_l, !N.land_ones.
  rewrite N.shiftl_mul_pow2, N.mod_mul by (apply N.pow_nonzero; lia).
  rewrite N.mod_small by assumption. reflexivity.
Qed.

Lemma to4_mapped : forall v, v < 2 ^ 32 -> to4 (IP16 (mapped v)) = Some v.
Proof.
  intros v Hv. unfold to4. rewrite mapped_hi by assumption. cbn [N.eqb Pos.eqb].
  rewrite mapped_lo by assumption. reflexivity.
Qed.

Lemma land_ones32_lt : forall v, N.land v (N.ones 32) < 2 ^ 32.
Proof. intros. rewrite N.land_ones. apply N.mod_lt. apply N.pow_nonzero. lia. Qed.

(* norm_ip (the property's reading of an address) and To4 (the code's) agree *)
Definition ip_val (a : ip) : N := match a with IP4 v | IP16 v => v end.

Lemma norm_to4 : forall a,
  norm_ip a = match to4 a with Some v => (true, v) | None => (false, ip_val a) end.
Proof. intros [v|v]; cbn; [reflexivity|]. destruct (N.shiftr v 32 =? 65535); reflexivity. Qed.

Definition akey_of (f : bool) (v : N) : akey := if f then K4 v else K6 v.

Lemma ipkey_norm : forall a, ipkey a = akey_of (fst (norm_ip a)) (snd (norm_ip a)).
Proof.
  intros a. rewrite norm_to4. unfold ipkey. destruct (to4 a) eqn:E; cbn; [reflexivity|].
  destruct a; cbn in *; [discriminate|reflexivity].
Qed.

Definition wf_ip (a : ip) : Prop := wf_ipb a = true.

Lemma wf_ip4 : forall v, wf_ip (IP4 v) <-> v < 2 ^ 32.
Proof. intros. unfold wf_ip, wf_ipb. rewrite shiftl1_pow. apply N.ltb_lt. Qed.
Lemma wf_ip16 : forall v, wf_ip (IP16 v) <-> v < 2 ^ 128.
Proof. intros. unfold wf_ip, wf_ipb. rewrite shiftl1_pow. apply N.ltb_lt. Qed.

(* the normalised value fits its family *)
Lemma norm_ip_range : forall a, wf_ip a -> snd (norm_ip a) < 2 ^ fam_bits (fst (norm_ip a)).
Proof.
  intros [v|v] H; cbn.
  - apply wf_ip4, H.
  - destruct (N.shiftr v 32 =? 65535); cbn.
    + apply land_ones32_lt.
    + apply wf_ip16, H.
Qed.

Lemma norm_ip_not_mapped : forall a, fst (norm_ip a) = false ->
  N.shiftr (snd (norm_ip a)) 32 <> 65535.
Proof.
  intros [v|v]; cbn; [discriminate|].
  destruct (N.eqb_spec (N.shiftr v 32) 65535); cbn; [discriminate|auto].
Qed.

(* ---- networkNumberAndMask, Contains ------------------------------------- *)
Definition wf_snet (s : snet) : Prop := wf_snetb s = true.

Lemma wf_snet_inv : forall s, wf_snet s -> wf_ip (s_ip s) /\ s_ones s <= mask_bits s.
Proof.
  intros s H. unfold wf_snet, wf_snetb in H. apply andb_true_iff in H. destruct H as [H1 H2].
  split; [exact H1|]. apply N.leb_le, H2.
Qed.

(* effective prefix length in the network's own family *)
Lemma nn_and_mask_norm : forall s, wf_snet s ->
  nn_and_mask s =
    let '(f, nn) := norm_ip (s_ip s) in
    if f then Some (true, nn, cidr_mask 32 (eff_ones s))
    else if s_m16 s then Some (false, nn, cidr_mask 128 (eff_ones s)) else None.
Proof.
  intros s H. apply wf_snet_inv in H. destruct H as [_ Hn].
  unfold nn_and_mask, eff_ones, mask_bits in *. rewrite norm_to4.
  destruct (to4 (s_ip s)) eqn:E.
  - destruct (s_m16 s); [|reflexivity]. rewrite mask16_low32 by assumption. reflexivity.
  - destruct (s_ip s); cbn in *; [discriminate|]. destruct (s_m16 s); reflexivity.
Qed.

Lemma eff_ones_le : forall s, wf_snet s -> snet_key s <> None ->
  eff_ones s <= fam_bits (fst (norm_ip (s_ip s))).
Proof.
  intros s H Hk. pose proof (wf_snet_inv s H) as [_ Hn].
  unfold snet_key in Hk. rewrite nn_and_mask_norm in Hk by assumption.
  unfold eff_ones, mask_bits in *. rewrite norm_to4 in *.
  destruct (to4 (s_ip s)); cbn in *.
  - destruct (s_m16 s); lia.
  - destruct (s_m16 s); [assumption|congruence].
Qed.

(* Contains in the property's vocabulary: same family after normalisation and
   equal on the top [len] bits *)
Lemma contains_top_bits : forall s a, wf_snet s -> wf_ip a -> snet_key s <> None ->
  contains s a =
    let '(f, nn) := norm_ip (s_ip s) in
    let '(fa, x) := norm_ip a in
    Bool.eqb f fa && (top_bits f x (eff_ones s) =? top_bits f nn (eff_ones s)).
Proof.
  intros s a Hs Ha Hk. pose proof (eff_ones_le s Hs Hk) as Hle.
  pose proof (norm_ip_range (s_ip s) (proj1 (wf_snet_inv s Hs))) as Hnn.
  pose proof (norm_ip_range a Ha) as Hx.
  unfold snet_key in Hk. unfold contains. rewrite nn_and_mask_norm in * by assumption.
  rewrite (norm_to4 a) in *.
  destruct (norm_ip (s_ip s)) as [f nn]. cbn [fst snd] in *.
  destruct f.
  - destruct (to4 a) as [x|] eqn:Ea; cbn [fst snd] in *.
    + cbn [Bool.eqb andb]. unfold top_bits. cbn [fam_bits] in *.
      rewrite masked_eq_iff by assumption. apply N.eqb_sym.
    + destruct a; cbn in Ea; [discriminate|]. reflexivity.
  - destruct (s_m16 s); [|congruence].
    destruct (to4 a) as [x|] eqn:Ea; cbn [fst snd] in *.
    + reflexivity.
    + destruct a as [v|v]; cbn in Ea; [discriminate|]. cbn [negb andb Bool.eqb ip_val] in *.
      unfold top_bits. cbn [fam_bits] in *. rewrite masked_eq_iff by assumption. apply N.eqb_sym.
Qed.

(* ---- keys ---------------------------------------------------------------- *)
Definition id_of_skey (k : skey) : rid :=
  match k with (K4 nn, len) => IdSubnet true nn len | (K6 nn, len) => IdSubnet false nn len end.

Definition id_of_akey (k : akey) : rid :=
  match k with K4 v => IdAddr true v | K6 v => IdAddr false v end.

Definition wf_akey (k : akey) : Prop :=
  match k with
  | K4 v => v < 2 ^ 32
  | K6 v => v < 2 ^ 128 /\ N.shiftr v 32 <> 65535
  end.

Definition wf_skey (k : skey) : Prop :=
  wf_akey (fst k) /\ snd k <= (match fst k with K4 _ => 32 | K6 _ => 128 end).

Lemma ipkey_wf : forall a, wf_ip a -> wf_akey (ipkey a).
Proof.
  intros a H. rewrite ipkey_norm. pose proof (norm_ip_range a H) as Hr.
  pose proof (norm_ip_not_mapped a) as Hm.
  destruct (norm_ip a) as [f v]; cbn in *. destruct f; cbn; auto.
Qed.

Lemma addr_id_ipkey : forall a, addr_id a = id_of_akey (ipkey a).
Proof.
  intros a. unfold addr_id. rewrite ipkey_norm. destruct (norm_ip a) as [f v]. destruct f; reflexivity.
Qed.

Lemma snet_key_norm : forall s, wf_snet s -> snet_key s <> None ->
  snet_key s = Some (akey_of (fst (norm_ip (s_ip s))) (snd (norm_ip (s_ip s))), eff_ones s).
Proof.
  intros s H Hk. unfold snet_key in *. rewrite nn_and_mask_norm in * by assumption.
  destruct (norm_ip (s_ip s)) as [f nn]; cbn. destruct f; [reflexivity|].
  destruct (s_m16 s); [reflexivity|congruence].
Qed.

Lemma skey_of_wf : forall s, wf_snet s -> snet_key s <> None -> wf_skey (skey_of s).
Proof.
  intros s H Hk. unfold skey_of. rewrite snet_key_norm by assumption.
  pose proof (eff_ones_le s H Hk) as Hle.
  pose proof (norm_ip_range (s_ip s) (proj1 (wf_snet_inv s H))) as Hr.
  pose proof (norm_ip_not_mapped (s_ip s)) as Hm.
  destruct (norm_ip (s_ip s)) as [f nn]; cbn in *. destruct f; split; cbn; auto.
Qed.

(* the textual identity the monitor gives a subnet is the key the code files it under *)
Lemma denote_textual : forall s, wf_snet s -> snet_key s <> None ->
  denote true s = Some (id_of_skey (skey_of s)).
Proof.
  intros s H Hk. unfold skey_of. rewrite snet_key_norm by assumption.
  unfold snet_key in Hk. rewrite nn_and_mask_norm in Hk by assumption.
  unfold denote, eff_ones, sub_id. rewrite norm_to4 in *.
  destruct (to4 (s_ip s)); cbn in *; [reflexivity|].
  destruct (s_m16 s); [reflexivity|congruence].
Qed.

Lemma denote_den : forall s, denote false s = option_map den (denote true s).
Proof.
  intros s. unfold denote, sub_id. destruct (norm_ip (s_ip s)) as [f nn].
  destruct f; [reflexivity|]. destruct (s_m16 s); reflexivity.
Qed.

Lemma contains_matches_key : forall s a, wf_snet s -> wf_ip a -> snet_key s <> None ->
  contains s a = rid_matches (id_of_skey (skey_of s)) a.
Proof.
  intros s a H Ha Hk. rewrite contains_top_bits by assumption.
  unfold skey_of. rewrite snet_key_norm by assumption.
  destruct (norm_ip (s_ip s)) as [f nn]. unfold rid_matches. destruct (norm_ip a) as [fa x].
  cbn [fst snd akey_of]. destruct f; reflexivity.
Qed.

(* ---- ParseCIDR of a key --------------------------------------------------- *)
Lemma masked_not_mapped : forall v n, v < 2 ^ 128 -> n <= 128 -> N.shiftr v 32 <> 65535 ->
  N.shiftr (N.land v (cidr_mask 128 n)) 32 <> 65535.
Proof.
  intros v n Hv Hn Hm H. apply Hm. clear Hm.
  assert (B0 : N.testbit (N.shiftr (N.land v (cidr_mask 128 n)) 32) 0 = true) by (rewrite H; reflexivity).
  rewrite N.shiftr_spec', N.land_spec, testbit_cidr_mask in B0 by assumption.
  apply andb_true_iff in B0. destruct B0 as [_ B0]. apply andb_true_iff in B0. destruct B0 as [B0 _].
  apply N.leb_le in B0.
  rewrite <- H. apply N.bits_inj. intro i.
  rewrite !N.shiftr_spec', N.land_spec, testbit_cidr_mask by assumption.
  destruct (N.leb_spec (128 - n) (i + 32)); [|lia]. cbn [andb].
  destruct (N.ltb_spec (i + 32) 128).
  - rewrite andb_true_r. reflexivity.
  - rewrite (testbit_above v 128) by assumption. reflexivity.
Qed.

Lemma land_mask_lt : forall x b k, x < 2 ^ b -> N.land x (cidr_mask b k) < 2 ^ b.
Proof.
  intros x b k Hx. destruct (N.eq_dec (N.land x (cidr_mask b k)) 0) as [->|Hz].
  - apply N.neq_0_lt_0, N.pow_nonzero. lia.
  - apply N.log2_lt_pow2; [lia|].
    eapply N.le_lt_trans; [apply N.log2_land|].
    destruct (N.eq_dec x 0) as [->|Hx0]; [rewrite N.land_0_l in Hz; congruence|].
    apply N.min_lt_iff. left. apply N.log2_lt_pow2; lia.
Qed.

Lemma parse_cidr_wf : forall k, wf_skey k -> wf_snet (parse_cidr k) /\ snet_key (parse_cidr k) <> None.
Proof.
  intros [[v|v] n] [Hk Hn]; cbn in *.
  - split.
    + unfold wf_snet, wf_snetb. cbn. rewrite shiftl1_pow. apply andb_true_iff. split.
      * apply N.ltb_lt, land_mask_lt, Hk.
      * apply N.leb_le, Hn.
    + unfold snet_key, nn_and_mask. cbn. discriminate.
  - destruct Hk as [Hv Hm]. split.
    + unfold wf_snet, wf_snetb. cbn. rewrite shiftl1_pow. apply andb_true_iff. split.
      * apply N.ltb_lt, land_mask_lt, Hv.
      * apply N.leb_le, Hn.
    + unfold snet_key, nn_and_mask. cbn [s_ip s_m16 s_ones parse_cidr to4 mask_bits].
      pose proof (masked_not_mapped v n Hv Hn Hm) as Hx. apply N.eqb_neq in Hx. rewrite Hx. discriminate.
Qed.

Lemma top_bits_masked : forall f v n, n <= fam_bits f -> v < 2 ^ fam_bits f ->
  top_bits f (N.land v (cidr_mask (fam_bits f) n)) n = top_bits f v n.
Proof.
  intros f v n Hn Hv. unfold top_bits. rewrite land_cidr_mask by assumption.
  rewrite N.shiftr_shiftl_l by lia. rewrite N.sub_diag. apply N.shiftl_0_r.
Qed.

(* the re-parsed subnet denotes what its key denotes, and matches the same addresses *)
Lemma norm_parse_cidr : forall k, wf_skey k ->
  norm_ip (s_ip (parse_cidr k)) =
    match k with
    | (K4 v, n) => (true, N.land v (cidr_mask 32 n))
    | (K6 v, n) => (false, N.land v (cidr_mask 128 n))
    end /\ eff_ones (parse_cidr k) = snd k.
Proof.
  intros [[v|v] n] [Hk Hn]; cbn in *.
  - split; reflexivity.
  - destruct Hk as [Hv Hm]. pose proof (masked_not_mapped v n Hv Hn Hm) as Hx.
    apply N.eqb_neq in Hx. unfold eff_ones. cbn [s_ip parse_cidr to4 s_ones]. rewrite Hx. split; reflexivity.
Qed.

Lemma parse_cidr_matches : forall k a, wf_skey k -> wf_ip a ->
  contains (parse_cidr k) a = rid_matches (id_of_skey k) a.
Proof.
  intros k a Hk Ha. destruct (parse_cidr_wf k Hk) as [Hw Hs].
  rewrite contains_top_bits by assumption.
  destruct (norm_parse_cidr k Hk) as [E1 E2]. rewrite E1, E2.
  destruct k as [[v|v] n]; destruct Hk as [Hk Hn]; cbn in *; unfold rid_matches;
    destruct (norm_ip a) as [fa x].
  - rewrite (top_bits_masked true) by assumption. reflexivity.
  - destruct Hk. rewrite (top_bits_masked false) by assumption. reflexivity.
Qed.

Lemma clear_host_masked : forall f v n, n <= fam_bits f -> v < 2 ^ fam_bits f ->
  clear_host f (N.land v (cidr_mask (fam_bits f) n)) n = clear_host f v n.
Proof. intros. unfold clear_host. rewrite top_bits_masked by assumption. reflexivity. Qed.

Lemma parse_cidr_denote : forall k, wf_skey k ->
  denote false (parse_cidr k) = Some (den (id_of_skey k)).
Proof.
  intros k Hk. destruct (norm_parse_cidr k Hk) as [E1 _].
  unfold denote. rewrite E1.
  destruct k as [[v|v] n]; destruct Hk as [Hk Hn]; cbn in *; unfold sub_id.
  - rewrite (clear_host_masked true) by assumption. reflexivity.
  - destruct Hk. rewrite (clear_host_masked false) by assumption. reflexivity.
Qed.

(* ParseIP(key) read back by the property *)
Lemma addr_id_of_akey : forall k, wf_akey k -> addr_id (ip_of_akey k) = id_of_akey k.
Proof.
  intros [v|v] H; cbn in H; unfold addr_id, ip_of_akey.
  - fold (mapped v). rewrite norm_to4, to4_mapped by assumption. reflexivity.
  - destruct H as [_ H]. apply N.eqb_neq in H. cbn. rewrite H. reflexivity.
Qed.

(* ---- canonical keys (canonicalSubnet) ----------------------------------------- *)
Definition masked_key (k : skey) : skey :=
  match k with
  | (K4 v, n) => (K4 (N.land v (cidr_mask 32 n)), n)
  | (K6 v, n) => (K6 (N.land v (cidr_mask 128 n)), n)
  end.

Lemma canon_key_eq : forall k, wf_skey k -> canon_key k = masked_key k.
Proof.
  intros k Hk. destruct (parse_cidr_wf k Hk) as [Hw Hs]. unfold canon_key, skey_of.
  rewrite snet_key_norm by assumption. destruct (norm_parse_cidr k Hk) as [E1 E2]. rewrite E1, E2.
  destruct k as [[v|v] n]; reflexivity.
Qed.

Lemma canon_key_wf : forall k, wf_skey k -> wf_skey (canon_key k).
Proof.
  intros k Hk. destruct (parse_cidr_wf k Hk) as [Hw Hs]. unfold canon_key. apply skey_of_wf; assumption.
Qed.

Lemma parse_canon : forall k, wf_skey k -> parse_cidr (canon_key k) = parse_cidr k.
Proof.
  intros k Hk. rewrite canon_key_eq by assumption.
  destruct k as [[v|v] n]; cbn; rewrite land_idem_mask; reflexivity.
Qed.

Lemma clear_host_land : forall f v n, n <= fam_bits f -> v < 2 ^ fam_bits f ->
  clear_host f v n = N.land v (cidr_mask (fam_bits f) n).
Proof. intros. unfold clear_host, top_bits. rewrite land_cidr_mask by assumption. reflexivity. Qed.

(* the key the code files a subnet under is the identity the property gives it *)
Lemma id_canon : forall k, wf_skey k -> id_of_skey (canon_key k) = den (id_of_skey k).
Proof.
  intros k Hk. rewrite canon_key_eq by assumption.
  destruct k as [[v|v] n]; destruct Hk as [Hk Hn]; cbn in *.
  - rewrite (clear_host_land true) by assumption. reflexivity.
  - destruct Hk. rewrite (clear_host_land false) by assumption. reflexivity.
Qed.

Lemma denote_ckey : forall s, wf_snet s -> snet_key s <> None ->
  denote false s = Some (id_of_skey (ckey s)).
Proof.
  intros s H Hk. rewrite denote_den, denote_textual by assumption. cbn [option_map].
  unfold ckey. rewrite id_canon by (apply skey_of_wf; assumption). reflexivity.
Qed.

Lemma top_bits_clear_host : forall f x n, top_bits f (clear_host f x n) n = top_bits f x n.
Proof.
  intros. unfold clear_host, top_bits. rewrite N.shiftr_shiftl_l by lia.
  rewrite N.sub_diag. apply N.shiftl_0_r.
Qed.

Lemma rid_matches_den : forall id a, rid_matches (den id) a = rid_matches id a.
Proof.
  intros [p|f v|f x n] a; cbn [den]; [reflexivity|reflexivity|].
  unfold rid_matches. destruct (norm_ip a) as [fa va]. rewrite top_bits_clear_host. reflexivity.
Qed.

Lemma den_idem : forall id, den (den id) = den id.
Proof.
  intros [p|f v|f x n]; cbn [den]; [reflexivity|reflexivity|].
  unfold clear_host at 1. rewrite top_bits_clear_host. reflexivity.
Qed.

(* C10 — invariants of the gater model: memory agrees with the datastore at
   every call boundary (so a reopened gater enforces the same rules), and the
   effect of every event on the rule sets. *)
From Coq Require Import List NArith ZArith Bool Lia.
From Verif Require Import lib.Wire c10.Model c10.Spec c10.Proofs_ip.
Import ListNotations.
Local Opaque N.shiftr N.shiftl N.land N.lor N.ones N.pow N.testbit.

(* ---- lawful equality tests ------------------------------------------------ *)
Lemma akey_eqb_spec : forall a b, akey_eqb a b = true <-> a = b.
Proof.
  intros [x|x] [y|y]; cbn; try (split; [discriminate|congruence]);
    rewrite N.eqb_eq; split; congruence.
Qed.

Lemma skey_eqb_spec : forall a b, skey_eqb a b = true <-> a = b.
Proof.
  intros [a1 a2] [b1 b2]. unfold skey_eqb. cbn. rewrite andb_true_iff, akey_eqb_spec, N.eqb_eq.
  split; [intros [-> ->]; reflexivity|intros H; inversion H; auto].
Qed.

Lemma rid_eqb_spec : forall a b, rid_eqb a b = true <-> a = b.
Proof.
  intros [p|f v|f x l] [q|g w|g y m]; cbn; try (split; [discriminate|congruence]).
  - rewrite Z.eqb_eq. split; congruence.
  - rewrite andb_true_iff, eqb_true_iff, N.eqb_eq. split; [intros [-> ->]; reflexivity|intros H; inversion H; auto].
  - rewrite !andb_true_iff, eqb_true_iff, !N.eqb_eq.
    split; [intros [[-> ->] ->]; reflexivity|intros H; inversion H; auto].
Qed.

Lemma zeqb_spec : forall a b : Z, Z.eqb a b = true <-> a = b.
Proof. apply Z.eqb_eq. Qed.

(* ---- list-backed sets and maps -------------------------------------------- *)
Section Lists.
  Context {K : Type} (eqb : K -> K -> bool) (eqb_spec : forall a b, eqb a b = true <-> a = b).

  Lemma eqb_rfl : forall k, eqb k k = true.
  Proof. intros. apply eqb_spec. reflexivity. Qed.

  Lemma eqb_dec : forall a b : K, {a = b} + {a <> b}.
  Proof.
    intros a b. destruct (eqb a b) eqn:E.
    - left. apply eqb_spec, E.
    - right. intro H. apply eqb_spec in H. congruence.
  Qed.

  Lemma s_mem_In : forall k s, s_mem eqb k s = true <-> In k s.
  Proof.
    intros k s. induction s as [|x r IH]; cbn; [split; [discriminate|tauto]|].
    rewrite orb_true_iff, IH, eqb_spec. split; intros [H|H]; auto.
  Qed.

  Lemma In_s_del : forall x k s, In x (s_del eqb k s) <-> In x s /\ x <> k.
  Proof.
    intros x k s. induction s as [|y r IH]; cbn; [tauto|].
    destruct (eqb k y) eqn:E.
    - apply eqb_spec in E. subst y. rewrite IH. split; [tauto|]. intros [[H|H] N]; [congruence|tauto].
    - cbn. rewrite IH. split.
      + intros [H|H]; [|tauto]. subst y. split; [auto|]. intro H. subst x. rewrite eqb_rfl in E. discriminate.
      + tauto.
  Qed.

  Lemma In_s_add : forall x k s, In x (s_add eqb k s) <-> x = k \/ In x s.
  Proof.
    intros x k s. unfold s_add. cbn. rewrite In_s_del. split.
    - intros [H|[H _]]; auto.
    - intros [H|H]; [auto|]. destruct (eqb_dec x k); [auto|tauto].
  Qed.

  Context {V : Type}.

  Lemma In_a_del : forall x v k (m : list (K * V)), In (x, v) (a_del eqb k m) <-> In (x, v) m /\ x <> k.
  Proof.
    intros x v k m. induction m as [|[y w] r IH]; cbn; [tauto|].
    destruct (eqb k y) eqn:E.
    - apply eqb_spec in E. subst y. rewrite IH. split; [tauto|].
      intros [[H|H] N]; [inversion H; congruence|tauto].
    - cbn. rewrite IH. split.
      + intros [H|H]; [|tauto]. inversion H; subst. split; [auto|]. intro H1. subst x. rewrite eqb_rfl in E. discriminate.
      + tauto.
  Qed.

  Lemma In_a_put : forall x v k v' (m : list (K * V)),
    In (x, v) (a_put eqb k v' m) <-> (x = k /\ v = v') \/ (In (x, v) m /\ x <> k).
  Proof.
    intros. unfold a_put. cbn. rewrite In_a_del. split.
    - intros [H|H]; [inversion H; auto|auto].
    - intros [[-> ->]|H]; auto.
  Qed.

  Lemma a_find_put : forall x k v (m : list (K * V)),
    a_find eqb x (a_put eqb k v m) = if eqb x k then Some v else a_find eqb x m.
  Proof.
    intros. unfold a_put. cbn. destruct (eqb x k) eqn:E; [reflexivity|].
    induction m as [|[y w] r IH]; cbn; [reflexivity|].
    destruct (eqb k y) eqn:E2.
    - apply eqb_spec in E2. subst y. rewrite E. exact IH.
    - cbn. destruct (eqb x y); [reflexivity|exact IH].
  Qed.

  Lemma a_find_In : forall x v (m : list (K * V)), a_find eqb x m = Some v -> In (x, v) m.
  Proof.
    intros x v m. induction m as [|[y w] r IH]; cbn; [discriminate|].
    destruct (eqb x y) eqn:E.
    - intros H. inversion H. apply eqb_spec in E. subst. auto.
    - auto.
  Qed.

  Lemma a_find_None : forall x (m : list (K * V)), a_find eqb x m = None -> forall v, ~ In (x, v) m.
  Proof.
    intros x m. induction m as [|[y w] r IH]; cbn; [tauto|].
    destruct (eqb x y) eqn:E; [discriminate|].
    intros H v [H1|H1]; [inversion H1; subst; rewrite eqb_rfl in E; discriminate|eapply IH; eauto].
  Qed.

  (* loading: a set / map rebuilt from the datastore entries *)
  Lemma In_load_set : forall {A} (g : A -> K) (m : list A) x,
    In x (fold_right (fun kv acc => s_add eqb (g kv) acc) [] m) <-> exists kv, In kv m /\ g kv = x.
  Proof.
    intros A g m x. induction m as [|a r IH]; cbn [fold_right].
    - split; [intros []|intros [? [[] _]]].
    - rewrite In_s_add, IH. split.
      + intros [H|[kv [H1 H2]]]; [exists a; split; [left; reflexivity|congruence]|exists kv; split; [right; assumption|assumption]].
      + intros [kv [[H|H] H2]]; [subst; left; reflexivity|right; exists kv; split; assumption].
  Qed.

  Lemma In_load_map : forall {A} (g : A -> K) (f : K -> V) (m : list A) x v,
    In (x, v) (fold_right (fun kv acc => a_put eqb (g kv) (f (g kv)) acc) [] m) <->
    (exists kv, In kv m /\ g kv = x) /\ v = f x.
  Proof.
    intros A g f m x v. induction m as [|a r IH]; cbn [fold_right].
    - split; [intros []|intros [[? [[] _]] _]].
    - rewrite In_a_put, IH. split.
      + intros [[-> ->]|[[[kv [H1 H2]] H3] _]].
        * split; [exists a; split; [left; reflexivity|reflexivity]|reflexivity].
        * split; [exists kv; split; [right; assumption|assumption]|assumption].
      + intros [[kv [[H|H] H2]] ->].
        * subst. left. split; reflexivity.
        * destruct (eqb_dec x (g a)) as [E|E]; [left; split; [exact E|rewrite E; reflexivity]|]. right. split; [|exact E].
          split; [exists kv; split; assumption|reflexivity].
  Qed.
End Lists.

(* ---- well-formed inputs ---------------------------------------------------- *)
Definition wf_rule (r : rule) : Prop :=
  match r with
  | RPeer _ => True
  | RAddr a => wf_ip a
  | RSubnet s => wf_snet s /\ snet_key s <> None
  end.

Definition op_rule (o : op) : rule := match o with Block r | Unblock r => r end.
Definition op_block (o : op) : bool := match o with Block _ => true | Unblock _ => false end.

Definition wf_event (e : event) : Prop :=
  match ev_op e with Some o => wf_rule (op_rule o) | None => True end.

(* ---- what a stored subnet must satisfy ------------------------------------- *)
Definition sn_ok (k : skey) (s : snet) : Prop :=
  wf_skey k /\
  (forall a, wf_ip a -> contains s a = rid_matches (id_of_skey k) a) /\
  denote false s = Some (den (id_of_skey k)).

Lemma sn_ok_parse : forall k, wf_skey k -> sn_ok k (parse_cidr k).
Proof.
  intros k H. split; [exact H|]. split.
  - intros a Ha. apply parse_cidr_matches; assumption.
  - apply parse_cidr_denote, H.
Qed.

(* what BlockSubnet stores: the re-parsed subnet under its canonical key *)
Lemma sn_ok_block : forall s, wf_snet s -> snet_key s <> None -> sn_ok (ckey s) (cnet s).
Proof.
  intros s H Hk. pose proof (skey_of_wf s H Hk) as Hw. unfold cnet, ckey.
  rewrite <- (parse_canon (skey_of s) Hw). apply sn_ok_parse, canon_key_wf, Hw.
Qed.

(* ---- the invariant ----------------------------------------------------------- *)
Definition ds_wf (d : dstore) : Prop :=
  (forall p v, In (p, v) (d_peers d) -> v = p) /\
  (forall k v, In (k, v) (d_addrs d) -> ipkey v = k /\ wf_akey k) /\
  (forall k v, In (k, v) (d_subnets d) -> v = k /\ wf_skey k).

Definition agree (d : dstore) (m : rules) : Prop :=
  (forall p, In p (r_peers m) <-> exists v, In (p, v) (d_peers d)) /\
  (forall k, In k (r_addrs m) <-> exists v, In (k, v) (d_addrs d)) /\
  (forall k, (exists s, In (k, s) (r_subnets m)) <-> exists v, In (k, v) (d_subnets d)) /\
  (forall k, In k (r_addrs m) -> wf_akey k) /\
  (forall k s, In (k, s) (r_subnets m) -> sn_ok k s).

Definition Inv (st : gstate) : Prop := ds_wf (g_ds st) /\ agree (g_ds st) (g_mem st).

Lemma ds_wf_write : forall o d, wf_rule (op_rule o) -> ds_wf d -> ds_wf (ds_write o d).
Proof.
  intros o d Hw (Hp & Ha & Hs).
  destruct o as [[p|a|s]|[p|a|s]]; cbn [op_rule wf_rule] in *; unfold ds_wf; cbn [ds_write d_peers d_addrs d_subnets];
    (split; [|split]); try assumption; intros k v H.
  - apply (In_a_put _ zeqb_spec) in H. destruct H as [[-> ->]|[H _]]; [reflexivity|eauto].
  - apply (In_a_put _ akey_eqb_spec) in H.
    destruct H as [[-> ->]|[H _]]; [split; [reflexivity|apply ipkey_wf, Hw]|apply (Ha k v H)].
  - apply (In_a_put _ skey_eqb_spec) in H. destruct Hw.
    destruct H as [[-> ->]|[H _]]; [split; [reflexivity|apply canon_key_wf, skey_of_wf; assumption]|apply (Hs k v H)].
  - apply (In_a_del _ zeqb_spec) in H. destruct H as [H _]. eauto.
  - apply (In_a_del _ akey_eqb_spec) in H. destruct H as [H _]. apply (Ha k v H).
  - apply (In_a_del _ skey_eqb_spec) in H. destruct H as [H _]. apply (Hs k v H).
Qed.

Lemma agree_load : forall d, ds_wf d -> agree d (load_rules d).
Proof.
  intros d (Hp & Ha & Hs). unfold agree, load_rules. cbn [r_peers r_addrs r_subnets].
  split; [|split; [|split; [|split]]].
  - intros p. split.
    + intros H. apply (In_load_set _ zeqb_spec) in H. destruct H as [[k v] [H1 H2]]. cbn in H2.
      pose proof (Hp k v H1) as E. subst. eauto.
    + intros [v H]. apply (In_load_set _ zeqb_spec). exists (p, v). split; [exact H|]. cbn. apply (Hp p v H).
  - intros k. split.
    + intros H. apply (In_load_set _ akey_eqb_spec) in H. destruct H as [[k' v] [H1 H2]]. cbn in H2.
      destruct (Ha k' v H1) as [E _]. subst. eauto.
    + intros [v H]. apply (In_load_set _ akey_eqb_spec). exists (k, v). split; [exact H|]. cbn. apply (Ha k v H).
  - intros k. split.
    + intros [s H]. apply (In_load_map _ skey_eqb_spec snd parse_cidr) in H.
      destruct H as [[[k' v] [H1 H2]] _]. cbn in H2. destruct (Hs k' v H1) as [E _]. subst. eauto.
    + intros [v H]. exists (parse_cidr k). apply (In_load_map _ skey_eqb_spec snd parse_cidr).
      split; [|reflexivity]. exists (k, v). split; [exact H|]. cbn. apply (Hs k v H).
  - intros k H. apply (In_load_set _ akey_eqb_spec) in H. destruct H as [[k' v] [H1 H2]]. cbn in H2.
    destruct (Ha k' v H1) as [E W]. subst. exact W.
  - intros k s H. apply (In_load_map _ skey_eqb_spec snd parse_cidr) in H.
    destruct H as [[[k' v] [H1 H2]] ->]. cbn in H2. destruct (Hs k' v H1) as [E W]. subst.
    apply sn_ok_parse, W.
Qed.

Lemma agree_op : forall o d m, wf_rule (op_rule o) -> agree d m -> agree (ds_write o d) (mem_update o m).
Proof.
  intros o d m Hw (Ap & Aa & As & Wa & Ws).
  destruct o as [[p|a|s]|[p|a|s]]; cbn [op_rule wf_rule] in *; unfold agree;
    cbn [ds_write mem_update d_peers d_addrs d_subnets r_peers r_addrs r_subnets];
    (split; [|split; [|split; [|split]]]); try assumption.
  - intros q. rewrite (In_s_add _ zeqb_spec). split.
    + intros [->|H]; [exists p; apply (In_a_put _ zeqb_spec); auto|].
      apply Ap in H. destruct H as [v H]. destruct (Z.eq_dec q p) as [->|N].
      * exists p. apply (In_a_put _ zeqb_spec). auto.
      * exists v. apply (In_a_put _ zeqb_spec). auto.
    + intros [v H]. apply (In_a_put _ zeqb_spec) in H.
      destruct H as [[-> _]|[H _]]; [auto|right; apply Ap; eauto].
  - intros k. rewrite (In_s_add _ akey_eqb_spec). split.
    + intros [->|H]; [exists a; apply (In_a_put _ akey_eqb_spec); auto|].
      apply Aa in H. destruct H as [v H]. destruct (eqb_dec _ akey_eqb_spec k (ipkey a)) as [->|N].
      * exists a. apply (In_a_put _ akey_eqb_spec). auto.
      * exists v. apply (In_a_put _ akey_eqb_spec). auto.
    + intros [v H]. apply (In_a_put _ akey_eqb_spec) in H.
      destruct H as [[-> _]|[H _]]; [auto|right; apply Aa; eauto].
  - intros k H. apply (In_s_add _ akey_eqb_spec) in H. destruct H as [->|H]; [apply ipkey_wf, Hw|auto].
  - intros k. split.
    + intros [s0 H]. apply (In_a_put _ skey_eqb_spec) in H.
      destruct H as [[-> _]|[H N]].
      * exists (ckey s). apply (In_a_put _ skey_eqb_spec). auto.
      * assert (E : exists s, In (k, s) (r_subnets m)) by eauto. apply As in E. destruct E as [v E].
        exists v. apply (In_a_put _ skey_eqb_spec). auto.
    + intros [v H]. apply (In_a_put _ skey_eqb_spec) in H.
      destruct H as [[-> _]|[H N]].
      * exists (cnet s). apply (In_a_put _ skey_eqb_spec). auto.
      * assert (E : exists v, In (k, v) (d_subnets d)) by eauto. apply As in E. destruct E as [s0 E].
        exists s0. apply (In_a_put _ skey_eqb_spec). auto.
  - intros k s0 H. apply (In_a_put _ skey_eqb_spec) in H. destruct Hw.
    destruct H as [[-> ->]|[H _]]; [apply sn_ok_block; assumption|eauto].
  - intros q. split.
    + intros H. apply (In_s_del _ zeqb_spec) in H. destruct H as [H N]. apply Ap in H. destruct H as [v H].
      exists v. apply (In_a_del _ zeqb_spec). auto.
    + intros [v H]. apply (In_a_del _ zeqb_spec) in H. destruct H as [H N]. apply (In_s_del _ zeqb_spec).
      split; [apply Ap; eauto|exact N].
  - intros k. split.
    + intros H. apply (In_s_del _ akey_eqb_spec) in H. destruct H as [H N]. apply Aa in H. destruct H as [v H].
      exists v. apply (In_a_del _ akey_eqb_spec). auto.
    + intros [v H]. apply (In_a_del _ akey_eqb_spec) in H. destruct H as [H N]. apply (In_s_del _ akey_eqb_spec).
      split; [apply Aa; eauto|exact N].
  - intros k H. apply (In_s_del _ akey_eqb_spec) in H. destruct H as [H _]. auto.
  - intros k. split.
    + intros [s0 H]. apply (In_a_del _ skey_eqb_spec) in H. destruct H as [H N].
      assert (E : exists s, In (k, s) (r_subnets m)) by eauto. apply As in E. destruct E as [v E].
      exists v. apply (In_a_del _ skey_eqb_spec). auto.
    + intros [v H]. apply (In_a_del _ skey_eqb_spec) in H. destruct H as [H N].
      assert (E : exists v, In (k, v) (d_subnets d)) by eauto. apply As in E. destruct E as [s0 E].
      exists s0. apply (In_a_del _ skey_eqb_spec). auto.
  - intros k s0 H. apply (In_a_del _ skey_eqb_spec) in H. destruct H as [H _]. eauto.
Qed.

Lemma Inv_init : Inv init_state.
Proof.
  unfold Inv, init_state, ds_wf, agree. cbn.
  split; [split; [|split]; intros ? ? []|].
  split; [|split; [|split; [|split]]].
  - intros p. split; [intros []|intros [? []]].
  - intros k. split; [intros []|intros [? []]].
  - intros k. split; intros [? []].
  - intros ? [].
  - intros ? ? [].
Qed.

Lemma Inv_step : forall st e, wf_event e -> Inv st -> Inv (step st e).
Proof.
  intros st e Hw [Hd Ha]. unfold wf_event in Hw.
  destruct e as [o|o|o|o|]; cbn in *; unfold Inv; cbn.
  - split; [apply ds_wf_write; assumption|apply agree_op; assumption].
  - split; assumption.
  - split; [apply ds_wf_write; assumption|apply agree_load, ds_wf_write; assumption].
  - split; [assumption|apply agree_load; assumption].
  - split; [assumption|apply agree_load; assumption].
Qed.

Lemma Inv_run : forall h st, Forall wf_event h -> Inv st -> Inv (run st h).
Proof.
  induction h as [|e r IH]; intros st Hw Hi; cbn; [exact Hi|].
  inversion Hw; subst. apply IH; [assumption|apply Inv_step; assumption].
Qed.

(* ---- which rules a state enforces, by rule identity ------------------------- *)
Definition model_has (m : rules) (id : rid) : Prop :=
  match id with
  | IdPeer p => In p (r_peers m)
  | IdAddr f v => In (akey_of f v) (r_addrs m)
  | IdSubnet f nn len => exists s, In ((akey_of f nn, len), s) (r_subnets m)
  end.

(* the identity under which the code files a rule; for a subnet the canonical
   key, which is also the identity the property gives it (rid_of_rule_tid) *)
Definition tid (r : rule) : rid :=
  match r with
  | RPeer p => IdPeer p
  | RAddr a => id_of_akey (ipkey a)
  | RSubnet s => id_of_skey (ckey s)
  end.

Lemma rid_of_rule_tid : forall r, wf_rule r -> rid_of_rule false r = Some (tid r).
Proof.
  intros [p|a|s] H; cbn in *.
  - reflexivity.
  - rewrite <- addr_id_ipkey. unfold addr_id. destruct (norm_ip a). reflexivity.
  - destruct H. apply denote_ckey; assumption.
Qed.

Lemma akey_of_id : forall k, match id_of_akey k with IdAddr f v => akey_of f v = k | _ => False end.
Proof. intros [v|v]; reflexivity. Qed.

Lemma model_has_akey : forall m k, model_has m (id_of_akey k) <-> In k (r_addrs m).
Proof. intros m [v|v]; cbn; tauto. Qed.

Lemma model_has_skey : forall m k, model_has m (id_of_skey k) <-> exists s, In (k, s) (r_subnets m).
Proof. intros m [[v|v] n]; cbn; tauto. Qed.

Lemma id_of_akey_inj : forall a b, id_of_akey a = id_of_akey b -> a = b.
Proof. intros [x|x] [y|y] H; inversion H; reflexivity. Qed.

Lemma id_of_skey_inj : forall a b, id_of_skey a = id_of_skey b -> a = b.
Proof. intros [[x|x] n] [[y|y] m] H; inversion H; reflexivity. Qed.

(* any rule identity is a peer, the identity of an address key or of a subnet key *)
Lemma rid_cases : forall id, (exists p, id = IdPeer p) \/ (exists k, id = id_of_akey k) \/ (exists k, id = id_of_skey k).
Proof.
  intros [p|f v|f x l].
  - left. eauto.
  - right. left. exists (akey_of f v). destruct f; reflexivity.
  - right. right. exists (akey_of f x, l). destruct f; reflexivity.
Qed.

(* in-memory update: exactly the rule of the call changes *)
Lemma model_has_update : forall o m id,
  model_has (mem_update o m) id <->
  (if rid_eqb id (tid (op_rule o)) then op_block o = true else model_has m id).
Proof.
  intros o m id.
  destruct (rid_eqb id (tid (op_rule o))) eqn:E.
  - apply rid_eqb_spec in E. subst id.
    destruct o as [[p|a|s]|[p|a|s]]; cbn [op_rule tid op_block];
      rewrite ?model_has_akey, ?model_has_skey;
      cbn [model_has mem_update r_peers r_addrs r_subnets].
    + rewrite (In_s_add _ zeqb_spec). tauto.
    + rewrite (In_s_add _ akey_eqb_spec). tauto.
    + split; [reflexivity|]. intros _. exists (cnet s). apply (In_a_put _ skey_eqb_spec). auto.
    + rewrite (In_s_del _ zeqb_spec). split; [tauto|discriminate].
    + rewrite (In_s_del _ akey_eqb_spec). split; [tauto|discriminate].
    + split; [|discriminate]. intros [s0 H]. apply (In_a_del _ skey_eqb_spec) in H. tauto.
  - assert (N : id <> tid (op_rule o)) by (intro H; apply rid_eqb_spec in H; congruence). clear E.
    destruct (rid_cases id) as [[q ->]|[[k ->]|[k ->]]];
      destruct o as [[p|a|s]|[p|a|s]]; cbn [op_rule tid op_block] in *;
      rewrite ?model_has_akey, ?model_has_skey;
      cbn [model_has mem_update r_peers r_addrs r_subnets]; try tauto.
    + rewrite (In_s_add _ zeqb_spec). split; [intros [->|H]; [congruence|auto]|auto].
    + rewrite (In_s_del _ zeqb_spec). split; [tauto|]. intro H. split; [auto|congruence].
    + rewrite (In_s_add _ akey_eqb_spec). split; [intros [->|H]; [congruence|auto]|auto].
    + rewrite (In_s_del _ akey_eqb_spec). split; [tauto|]. intro H. split; [auto|congruence].
    + split.
      * intros [s0 H]. apply (In_a_put _ skey_eqb_spec) in H. destruct H as [[-> _]|[H _]]; [congruence|eauto].
      * intros [s0 H]. exists s0. apply (In_a_put _ skey_eqb_spec). right. split; [auto|congruence].
    + split.
      * intros [s0 H]. apply (In_a_del _ skey_eqb_spec) in H. destruct H as [H _]. eauto.
      * intros [s0 H]. exists s0. apply (In_a_del _ skey_eqb_spec). split; [auto|congruence].
Qed.

(* two memories that agree with the same datastore enforce the same rules *)
Lemma agree_same : forall d m1 m2 id, agree d m1 -> agree d m2 -> (model_has m1 id <-> model_has m2 id).
Proof.
  intros d m1 m2 id (P1 & A1 & S1 & _) (P2 & A2 & S2 & _).
  destruct id as [p|f v|f x l]; cbn.
  - rewrite P1, P2. tauto.
  - rewrite A1, A2. tauto.
  - rewrite S1, S2. tauto.
Qed.

(* the effect of one event on the enforced rules *)
Lemma model_has_step : forall st e id, wf_event e -> Inv st ->
  (model_has (g_mem (step st e)) id <->
   match e with
   | EOp o | ECrashAfter o =>
       if rid_eqb id (tid (op_rule o)) then op_block o = true else model_has (g_mem st) id
   | _ => model_has (g_mem st) id
   end).
Proof.
  intros st e id Hw [Hd Ha]. unfold wf_event in Hw.
  destruct e as [o|o|o|o|]; cbn [step g_mem ev_op] in *.
  - apply model_has_update.
  - tauto.
  - rewrite <- model_has_update.
    apply (agree_same (ds_write o (g_ds st))).
    + apply agree_load, ds_wf_write; assumption.
    + apply agree_op; assumption.
  - apply (agree_same (g_ds st)); [apply agree_load; assumption|assumption].
  - apply (agree_same (g_ds st)); [apply agree_load; assumption|assumption].
Qed.

(* C10 — admission pipelines, persistence corollaries, gate call sites. *)
From Coq Require Import List NArith ZArith Bool Lia.
From Verif Require Import lib.Wire c10.Model c10.Spec c10.Proofs_ip c10.Proofs c10.Proofs_mon.
Import ListNotations.
Local Opaque N.shiftr N.shiftl N.land N.lor N.ones N.pow N.testbit.

(* ---- all textual forms of an address get the same answers -------------------- *)
Lemma contains_norm : forall s a b, norm_ip a = norm_ip b -> contains s a = contains s b.
Proof.
  intros s a b H. unfold contains. destruct (nn_and_mask s) as [[[is4 nn] m]|]; [|reflexivity].
  rewrite !norm_to4 in H.
  destruct (to4 a) as [x|] eqn:Ea, (to4 b) as [y|] eqn:Eb; inversion H; subst; try reflexivity.
  destruct a as [v|v], b as [w|w]; cbn in *; try discriminate. subst. reflexivity.
Qed.

Lemma ip_refused_norm : forall m a b, norm_ip a = norm_ip b -> ip_refused m a = ip_refused m b.
Proof.
  intros m a b H. unfold ip_refused. rewrite !ipkey_norm, H. f_equal.
  induction (r_subnets m) as [|ks r IH]; cbn; [reflexivity|].
  rewrite (contains_norm _ a b H), IH. reflexivity.
Qed.

(* ---- pipelines ------------------------------------------------------------------ *)
Lemma finish_no_dial : forall sites m inb p k, ~ In (PvTransportDial k) (finish sites m inb p).
Proof.
  intros sites m inb p k H. unfold finish in H.
  repeat match type of H with context [if ?c then _ else _] => destruct c end;
    cbn in H; intuition discriminate.
Qed.

Lemma dial_addrs_from : forall sites m p addrs i k,
  In (PvTransportDial k) (dial_addrs sites m p i addrs) -> (i <= k)%nat.
Proof.
  intros sites m p addrs. induction addrs as [|a r IH]; intros i k H; cbn in H; [contradiction|].
  apply in_app_or in H. destruct H as [H|H].
  - destruct (has_gate sites GAddrDial); cbn in H; intuition discriminate.
  - apply in_app_or in H. destruct H as [H|H].
    + destruct (if has_gate sites GAddrDial then intercept_addr_dial m a else true); [|contradiction].
      cbn in H. destruct H as [H|H]; [inversion H; lia|]. apply finish_no_dial in H. contradiction.
    + apply IH in H. lia.
Qed.

(* a refused address is never handed to a transport *)
Lemma dial_addrs_blocked : forall sites m p addrs i j a,
  has_gate sites GAddrDial = true -> nth_error addrs j = Some (Some a) -> ip_refused m a = true ->
  ~ In (PvTransportDial (i + j)) (dial_addrs sites m p i addrs).
Proof.
  intros sites m p addrs. induction addrs as [|x r IH]; intros i j a Hg Hn Hr H; [destruct j; discriminate|].
  cbn in H. rewrite Hg in H. cbn [app] in H. destruct H as [H|H]; [discriminate|].
  apply in_app_or in H. destruct j as [|j]; cbn in Hn.
  - inversion Hn; subst x. cbn [intercept_addr_dial] in H. rewrite Hr in H. cbn in H.
    destruct H as [H|H]; [contradiction|]. apply dial_addrs_from in H. lia.
  - destruct H as [H|H].
    + destruct (intercept_addr_dial m x); [|contradiction]. cbn in H.
      destruct H as [H|H]; [inversion H; lia|]. apply finish_no_dial in H. contradiction.
    + replace (i + S j)%nat with (S i + j)%nat in H by lia. eapply IH; eassumption.
Qed.

Lemma outbound_peer_blocked : forall sites m p addrs,
  has_gate sites GPeerDial = true -> peer_blocked m p = true ->
  outbound sites m p addrs = [PvPeerDial p false].
Proof.
  intros sites m p addrs Hg Hb. unfold outbound, intercept_peer_dial. rewrite Hg, Hb. reflexivity.
Qed.

Lemma outbound_addr_blocked : forall sites m p addrs j a,
  has_gate sites GAddrDial = true -> nth_error addrs j = Some (Some a) -> ip_refused m a = true ->
  ~ In (PvTransportDial j) (outbound sites m p addrs).
Proof.
  intros sites m p addrs j a Hg Hn Hr H. unfold outbound in H. apply in_app_or in H. destruct H as [H|H].
  - destruct (has_gate sites GPeerDial); cbn in H; intuition discriminate.
  - destruct (if has_gate sites GPeerDial then intercept_peer_dial m p else true); [|contradiction].
    apply (dial_addrs_blocked sites m p addrs 0 j a Hg Hn Hr). exact H.
Qed.

(* a connection is admitted outbound only after a transport dial *)
Lemma dial_addrs_admitted : forall sites m p addrs i,
  In PvConnected (dial_addrs sites m p i addrs) -> exists k, In (PvTransportDial k) (dial_addrs sites m p i addrs).
Proof.
  intros sites m p addrs. induction addrs as [|a r IH]; intros i H; cbn in *; [contradiction|].
  apply in_app_or in H. destruct H as [H|H].
  - destruct (has_gate sites GAddrDial); cbn in H; intuition discriminate.
  - apply in_app_or in H. destruct H as [H|H].
    + destruct (if has_gate sites GAddrDial then intercept_addr_dial m a else true); [|contradiction].
      exists i. apply in_or_app. right. apply in_or_app. left. left. reflexivity.
    + apply IH in H. destruct H as [k H]. exists k. apply in_or_app. right. apply in_or_app. right. exact H.
Qed.

Lemma inbound_addr_blocked : forall sites m p a,
  has_gate sites GAccept = true -> ip_refused m a = true ->
  inbound sites m p (Some a) = [PvAccept false; PvClosed].
Proof.
  intros sites m p a Hg Hr. unfold inbound, intercept_accept. rewrite Hg, Hr. reflexivity.
Qed.

Lemma inbound_peer_blocked : forall sites m p oa,
  has_gate sites GSecuredIn = true -> peer_blocked m p = true ->
  inbound sites m p oa =
    if (if has_gate sites GAccept then intercept_accept m oa else true)
    then (if has_gate sites GAccept then [PvAccept true] else []) ++ [PvHandshake; PvSecured true p false; PvClosed]
    else [PvAccept false; PvClosed].
Proof.
  intros sites m p oa Hg Hb. unfold inbound, finish, intercept_secured. rewrite Hg, Hb.
  destruct (has_gate sites GAccept); [|reflexivity].
  destruct (intercept_accept m oa); reflexivity.
Qed.

(* ---- the enforced rules refuse ---------------------------------------------------- *)
Lemma enforced_peer_refused : forall m p, model_has m (IdPeer p) ->
  intercept_peer_dial m p = false /\ intercept_secured m true p = false.
Proof.
  intros m p H. cbn in H. apply (s_mem_In _ zeqb_spec) in H.
  unfold intercept_peer_dial, intercept_secured, peer_blocked. rewrite H. split; reflexivity.
Qed.

Lemma enforced_addr_refused : forall m a b, model_has m (tid (RAddr a)) -> norm_ip b = norm_ip a ->
  ip_refused m b = true.
Proof.
  intros m a b H E. rewrite (ip_refused_norm m b a E). cbn [tid] in H. apply model_has_akey in H.
  unfold ip_refused. apply (s_mem_In _ akey_eqb_spec) in H. rewrite H. reflexivity.
Qed.

Lemma enforced_subnet_refused : forall m s b, mem_ok m -> wf_snet s -> snet_key s <> None -> wf_ip b ->
  model_has m (tid (RSubnet s)) -> contains s b = true -> ip_refused m b = true.
Proof.
  intros m s b Hok Hs Hk Hb H Hc. apply refused_iff; [assumption|assumption|].
  exists (tid (RSubnet s)). split; [exact H|]. cbn [tid]. unfold ckey.
  rewrite id_canon by (apply skey_of_wf; assumption). rewrite rid_matches_den.
  rewrite <- contains_matches_key by assumption. exact Hc.
Qed.

(* ---- persistence: only a write on the same rule changes whether it is enforced ----- *)
Definition touches (id : rid) (e : event) : bool :=
  match e with
  | EOp o | ECrashAfter o => rid_eqb id (tid (op_rule o))
  | _ => false
  end.

Lemma untouched_run : forall h st id, Forall wf_event h -> Inv st ->
  forallb (fun e => negb (touches id e)) h = true ->
  (model_has (g_mem (run st h)) id <-> model_has (g_mem st) id).
Proof.
  induction h as [|e r IH]; intros st id Hw Hi Ht; cbn [run fold_left forallb] in *; [tauto|].
  inversion Hw; subst. apply andb_true_iff in Ht. destruct Ht as [Ht Hr].
  change (fold_left step r (step st e)) with (run (step st e) r).
  rewrite IH by (try assumption; apply Inv_step; assumption).
  rewrite (model_has_step st e id) by assumption.
  destruct e as [o|o|o|o|]; cbn in Ht; try tauto; apply negb_true_iff in Ht; rewrite Ht; tauto.
Qed.

Lemma run_app : forall h1 h2 st, run st (h1 ++ h2) = run (run st h1) h2.
Proof. intros. unfold run. apply fold_left_app. Qed.

Lemma persist_returned : forall h1 o h2, Forall wf_event h1 -> wf_rule (op_rule o) -> Forall wf_event h2 ->
  forallb (fun e => negb (touches (tid (op_rule o)) e)) h2 = true ->
  (model_has (g_mem (run init_state (h1 ++ EOp o :: h2))) (tid (op_rule o)) <-> op_block o = true).
Proof.
  intros h1 o h2 H1 Ho H2 Ht. rewrite run_app. cbn [run fold_left].
  fold (run (step (run init_state h1) (EOp o)) h2).
  pose proof (Inv_run h1 init_state H1 Inv_init) as Hi.
  assert (He : wf_event (EOp o)) by exact Ho.
  rewrite untouched_run by (try assumption; apply Inv_step; assumption).
  rewrite (model_has_step _ (EOp o)) by assumption. rewrite rid_eqb_refl. tauto.
Qed.

(* ---- gate call sites regenerated from the source ---------------------------------- *)
Definition gate_of_code (z : Z) : option gate :=
  if Z.eqb z 1 then Some GPeerDial else if Z.eqb z 2 then Some GAddrDial
  else if Z.eqb z 3 then Some GAccept else if Z.eqb z 4 then Some GSecuredIn
  else if Z.eqb z 5 then Some GSecuredOut else if Z.eqb z 6 then Some GUpgraded else None.

Fixpoint gates_of (l : list Z) : list gate :=
  match l with
  | [] => []
  | z :: r => match gate_of_code z with Some g => g :: gates_of r | None => gates_of r end
  end.

Definition codes_of (sites : list (Z * list Z)) (fam : Z) : list Z :=
  flat_map (fun fc : Z * list Z => if Z.eqb (fst fc) fam then snd fc else []) sites.

(* the gates a connection of transport family [fam] meets: the swarm's own
   (family 0) and the family's *)
Definition stack (sites : list (Z * list Z)) (fam : Z) : list gate :=
  gates_of (codes_of sites 0 ++ codes_of sites fam).

Definition fully_gated (sites : list (Z * list Z)) (fam : Z) : bool :=
  forallb (has_gate (stack sites fam)) full_sites &&
  (* the swarm itself contributes the dial gates and the upgraded gate, the
     family contributes accept and both secured gates *)
  forallb (has_gate (gates_of (codes_of sites 0))) [GPeerDial; GAddrDial; GUpgraded] &&
  forallb (has_gate (gates_of (codes_of sites fam))) [GAccept; GSecuredIn; GSecuredOut].

Lemma fully_gated_has : forall sites fam g, fully_gated sites fam = true -> has_gate (stack sites fam) g = true.
Proof.
  intros sites fam g H. unfold fully_gated in H. apply andb_true_iff in H. destruct H as [H _].
  apply andb_true_iff in H. destruct H as [H _]. rewrite forallb_forall in H. apply H.
  destruct g; cbn; auto 10.
Qed.

(* ---- readable statements ------------------------------------------------------------ *)
Lemma subnet_contains_spec_l : forall s a, wf_snet s -> wf_ip a -> snet_key s <> None ->
  (contains s a = true <->
   let '(f, nn) := norm_ip (s_ip s) in
   let '(fa, x) := norm_ip a in
   f = fa /\ (x / 2 ^ (fam_bits f - eff_ones s) = nn / 2 ^ (fam_bits f - eff_ones s))%N).
Proof.
  intros s a Hs Ha Hk. rewrite contains_top_bits by assumption.
  destruct (norm_ip (s_ip s)) as [f nn]. destruct (norm_ip a) as [fa x]. unfold top_bits.
  rewrite andb_true_iff, eqb_true_iff, N.eqb_eq, !N.shiftr_div_pow2. tauto.
Qed.

Lemma outbound_admitted_dial : forall sites m p addrs,
  In PvConnected (outbound sites m p addrs) -> exists k, In (PvTransportDial k) (outbound sites m p addrs).
Proof.
  intros sites m p addrs H. unfold outbound in *. apply in_app_or in H. destruct H as [H|H].
  - destruct (has_gate sites GPeerDial); cbn in H; intuition discriminate.
  - destruct (if has_gate sites GPeerDial then intercept_peer_dial m p else true); [|contradiction].
    apply dial_addrs_admitted in H. destruct H as [k H]. exists k. apply in_or_app. right. exact H.
Qed.

Lemma outbound_opt_incl : forall sites o m p addrs e,
  In e (outbound_opt sites o m p addrs) -> In e (outbound sites m p addrs).
Proof. intros sites o m p addrs e H. destruct o; cbn in H; try exact H. contradiction. Qed.

(* for EVERY dial-context option *)
Lemma blocked_never_admitted_l : forall sites h, (forall g, has_gate sites g = true) -> Forall wf_event h ->
  let m := g_mem (run init_state h) in
  (forall p, model_has m (IdPeer p) ->
     (forall o addrs, outbound_opt sites o m p addrs = [PvPeerDial p false] \/ outbound_opt sites o m p addrs = []) /\
     (forall oa, intercept_accept m oa = true ->
        inbound sites m p oa = [PvAccept true; PvHandshake; PvSecured true p false; PvClosed]) /\
     (forall oa, ~ In PvConnected (inbound sites m p oa))) /\
  (forall a b, model_has m (tid (RAddr a)) -> norm_ip b = norm_ip a ->
     (forall o p addrs j, nth_error addrs j = Some (Some b) -> ~ In (PvTransportDial j) (outbound_opt sites o m p addrs)) /\
     (forall p, inbound sites m p (Some b) = [PvAccept false; PvClosed])) /\
  (forall s b, wf_snet s -> snet_key s <> None -> wf_ip b -> model_has m (tid (RSubnet s)) -> contains s b = true ->
     (forall o p addrs j, nth_error addrs j = Some (Some b) -> ~ In (PvTransportDial j) (outbound_opt sites o m p addrs)) /\
     (forall p, inbound sites m p (Some b) = [PvAccept false; PvClosed])) /\
  (forall o p addrs, In PvConnected (outbound_opt sites o m p addrs) ->
     exists k, In (PvTransportDial k) (outbound sites m p addrs)).
Proof.
  intros sites h Hg Hw m.
  assert (Hok : mem_ok m) by (apply Inv_mem_ok, Inv_run; [exact Hw|apply Inv_init]).
  split; [|split; [|split]].
  - intros p Hp. cbn in Hp. apply (s_mem_In _ zeqb_spec) in Hp. fold (peer_blocked m p) in Hp.
    assert (Hin : forall oa, intercept_accept m oa = true ->
        inbound sites m p oa = [PvAccept true; PvHandshake; PvSecured true p false; PvClosed]).
    { intros oa Ha. rewrite inbound_peer_blocked by (auto). rewrite Hg, Ha. reflexivity. }
    split; [|split].
    + intros o addrs. destruct o; cbn [outbound_opt]; auto; left; apply outbound_peer_blocked; auto.
    + exact Hin.
    + intros oa H. destruct (intercept_accept m oa) eqn:Ea.
      * rewrite Hin in H by exact Ea. cbn in H. intuition discriminate.
      * rewrite inbound_peer_blocked in H by auto. rewrite Hg, Ea in H. cbn in H. intuition discriminate.
  - intros a b Ha Hn. pose proof (enforced_addr_refused m a b Ha Hn) as Hr. split.
    + intros o p addrs j Hj H. apply outbound_opt_incl in H. revert H. eapply outbound_addr_blocked; eauto.
    + intros p. apply inbound_addr_blocked; auto.
  - intros s b Hs Hk Hb Hm Hc. pose proof (enforced_subnet_refused m s b Hok Hs Hk Hb Hm Hc) as Hr. split.
    + intros o p addrs j Hj H. apply outbound_opt_incl in H. revert H. eapply outbound_addr_blocked; eauto.
    + intros p. apply inbound_addr_blocked; auto.
  - intros o p addrs H. apply outbound_opt_incl in H. apply outbound_admitted_dial, H.
Qed.

(* every event, from every reachable state: what it does to every rule *)
Lemma persist_crash_safe_l : forall h e id, Forall wf_event h -> wf_event e ->
  let st := run init_state h in
  (model_has (g_mem (step st e)) id <->
   match e with
   | EOp o | ECrashAfter o =>
       if rid_eqb id (tid (op_rule o)) then op_block o = true else model_has (g_mem st) id
   | EFail _ | ECrashBefore _ | EReopen => model_has (g_mem st) id
   end).
Proof.
  intros h e id Hw He st. rewrite (model_has_step st e id He (Inv_run h init_state Hw Inv_init)).
  destruct e; tauto.
Qed.

(* ---- order of gates and hand-offs inside the listener functions ------------------ *)
(* seq: the gate codes (3 accept, 4 secured-in, 5 secured-out, 13/14 delegated
   Accept/Upgrade of the upgrader listener) and hand-offs (9) of one function
   in source order; 99 = a hand-off pattern the scanner expected was not found *)
Fixpoint guarded (req seen seq : list Z) : bool :=
  match seq with
  | [] => true
  | c :: r =>
      if Z.eqb c 9 then forallb (fun g => existsb (Z.eqb g) seen) req && guarded req seen r
      else if Z.eqb c 99 then false
      else guarded req (c :: seen) r
  end.

Definition handoffs_guarded (l : list (Z * list Z * list Z)) : bool :=
  forallb (fun x : Z * list Z * list Z => existsb (Z.eqb 9) (snd x) && guarded (snd (fst x)) [] (snd x)) l.

Lemma guarded_sound : forall req seq seen pre post g,
  guarded req seen seq = true -> seq = pre ++ 9%Z :: post -> In g req -> In g pre \/ In g seen.
Proof.
  intros req seq. induction seq as [|c r IH]; intros seen pre post g H E Hg.
  - destruct pre; discriminate.
  - cbn in H. destruct pre as [|x pre']; cbn in E; inversion E; subst.
    + rewrite Z.eqb_refl in H. apply andb_true_iff in H. destruct H as [H _].
      rewrite forallb_forall in H. specialize (H g Hg). apply existsb_exists in H.
      destruct H as [y [Hy Ey]]. apply Z.eqb_eq in Ey. subst. right. exact Hy.
    + destruct (Z.eqb x 9) eqn:E9.
      * apply andb_true_iff in H. destruct H as [_ H].
        destruct (IH seen pre' post g H eq_refl Hg) as [H1|H1]; [left; right; exact H1|right; exact H1].
      * destruct (Z.eqb x 99); [discriminate|].
        destruct (IH (x :: seen) pre' post g H eq_refl Hg) as [H1|[H1|H1]].
        -- left. right. exact H1.
        -- left. left. exact H1.
        -- right. exact H1.
Qed.

Lemma handoffs_guarded_sound : forall l, handoffs_guarded l = true ->
  forall fam req seq, In (fam, req, seq) l ->
  In 9%Z seq /\ forall pre post, seq = pre ++ 9%Z :: post -> forall g, In g req -> In g pre.
Proof.
  intros l H fam req seq Hin. unfold handoffs_guarded in H. rewrite forallb_forall in H.
  specialize (H _ Hin). cbn in H. apply andb_true_iff in H. destruct H as [H9 Hg]. split.
  - apply existsb_exists in H9. destruct H9 as [y [Hy Ey]]. apply Z.eqb_eq in Ey. subst. exact Hy.
  - intros pre post E g Hr. destruct (guarded_sound req seq [] pre post g Hg E Hr) as [H1|[]]. exact H1.
Qed.

(* ---- every multiaddr form -------------------------------------------------------------- *)
(* zone prefixes in front and anything behind the IP component do not matter *)
Lemma to_ip_zone : forall a, to_ip (CZone :: a) = to_ip a.
Proof. reflexivity. Qed.

Lemma to_ip_ip4_rest : forall v rest, to_ip (CIp4 v :: rest) = Some (IP4 v).
Proof. reflexivity. Qed.

Lemma to_ip_ip6_rest : forall v rest, to_ip (CIp6 v :: rest) = Some (IP16 v).
Proof. reflexivity. Qed.

Lemma to_ip_some : forall a b, to_ip a = Some b ->
  exists zs rest, a = zs ++ (match b with IP4 v => CIp4 v | IP16 v => CIp6 v end) :: rest /\ Forall (fun c => c = CZone) zs.
Proof.
  induction a as [|c r IH]; intros b H; cbn in H; [discriminate|].
  destruct c.
  - inversion H; subst. exists [], r. split; [reflexivity|constructor].
  - inversion H; subst. exists [], r. split; [reflexivity|constructor].
  - destruct (IH b H) as [zs [rest [E F]]]. exists (CZone :: zs), rest. split; [rewrite E; reflexivity|constructor; auto].
  - discriminate.
Qed.

Lemma refused_every_form : forall m ma b, to_ip ma = Some b -> ip_refused m b = true ->
  intercept_addr_dial m (to_ip ma) = false /\ intercept_accept m (to_ip ma) = false.
Proof. intros m ma b E H. rewrite E. cbn. rewrite H. split; reflexivity. Qed.

(* ---- addresses known by name ------------------------------------------------------------- *)
(* everything the outbound path does with the addresses of a peer: every gated,
   dialed and connected-to address is one the resolution produced, and a
   transport only ever gets an address InterceptAddrDial let through *)
Lemma rdial_addrs_In : forall m addrs e, In e (rdial_addrs m addrs) ->
  exists a, In a addrs /\
    (e = RvAddrDial (Some a) (intercept_addr_dial m (Some a)) \/
     (intercept_addr_dial m (Some a) = true /\ (e = RvTptDial (Some a) \/ e = RvTptConn a))).
Proof.
  intros m addrs. induction addrs as [|a r IH]; intros e H; cbn [rdial_addrs] in H; [contradiction|].
  destruct H as [H|H]; [exists a; split; [left; reflexivity|left; symmetry; exact H]|].
  apply in_app_or in H. destruct H as [H|H].
  - exists a. split; [left; reflexivity|]. right.
    destruct (intercept_addr_dial m (Some a)); [|contradiction]. split; [reflexivity|].
    destruct H as [H|[H|[]]]; [left|right]; symmetry; exact H.
  - destruct (IH e H) as [b [Hb Hc]]. exists b. split; [right; exact Hb|exact Hc].
Qed.

Lemma rdial_spec : forall m p l e, In e (rdial m p l) ->
  match e with
  | RvPeerDial allow => allow = intercept_peer_dial m p
  | RvAddrDial oa allow =>
      exists a, oa = Some a /\ In a (resolve_addrs l) /\ allow = negb (ip_refused m a) /\ peer_blocked m p = false
  | RvTptDial oa =>
      exists a, oa = Some a /\ In a (resolve_addrs l) /\ ip_refused m a = false /\ peer_blocked m p = false
  | RvTptConn a => In a (resolve_addrs l) /\ ip_refused m a = false /\ peer_blocked m p = false
  end.
Proof.
  intros m p l e H. unfold rdial in H. destruct H as [H|H]; [subst e; reflexivity|].
  unfold intercept_peer_dial in H. destruct (peer_blocked m p) eqn:Ep; [contradiction|]. cbn [negb] in H.
  apply rdial_addrs_In in H. destruct H as [a [Ha [H|[Hok [H|H]]]]]; subst e.
  - exists a. repeat split; auto.
  - cbn in Hok. apply negb_true_iff in Hok. exists a. repeat split; auto.
  - cbn in Hok. apply negb_true_iff in Hok. repeat split; auto.
Qed.

Lemma resolve_addrs_In : forall l a, In a (resolve_addrs l) <->
  exists k, In k l /\ (k = KIp a \/ exists ans, k = KName (Some ans) /\ In a ans).
Proof.
  intros l a. unfold resolve_addrs. rewrite in_flat_map. split.
  - intros [k [Hk H]]. exists k. split; [exact Hk|]. destruct k as [b|[ans|]]; cbn in H.
    + destruct H as [H|[]]. left. congruence.
    + right. eauto.
    + contradiction.
  - intros [k [Hk [->|[ans [-> H]]]]]; eexists; (split; [exact Hk|]); cbn; auto.
Qed.

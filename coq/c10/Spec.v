(* C10 — the property as decidable predicates over observable traces
   (monitor), and the decoding of correspondence lines.  No proofs here.

   WIRE FORMAT (one case per line, integers):

   ip      := form w3 w2 w1 w0          form 4 (w3=w2=w1=0) or 16; big-endian 32-bit words
   rule    := 0 p 0 0 0 0 0 0           peer number p
            | 1 ip 0 0                  IP address
            | 2 ip m16 ones             IPNet{IP, CIDRMask(ones, m16 ? 128 : 32)}
   call    := ev opk rule               ev 0 normal call, 1 datastore write fails (error returned),
                                        2 stop after the datastore write + reopen,
                                        3 stop before the datastore write + reopen,
                                        4 clean reopen (opk/rule all zero);  opk 0 Block*, 1 Unblock*
   probe   := kind x ip tpt             kind 1 InterceptPeerDial(peer x)
                                             2 InterceptAddrDial(_, maddr)   x=1: maddr starts with ip, x=0: no IP
                                             3 InterceptAccept(maddr)        (same)
                                             4 InterceptSecured(Inbound, peer x)
                                             5 InterceptSecured(Outbound, peer x)
                                        tpt = index of the multiaddr template (informative)

   gater-level case:
     0 nprobes probe* nev ( call res view view )^nev
       view := ans^nprobes  np p^np  na ip^na  ns (ip m16 ones)^ns
       res 0 = nil, 1 = error, 2 = process stopped; ans 1 = allow, 0 = refuse;
       the three lists are ListBlockedPeers / Addrs / Subnets after the event.
       First view: the running gater.  Second view: a gater opened at that moment on the same
       datastore (the running one is kept) — what a restart would enforce.

   end-to-end case (real swarms; G carries the gater, R is the remote):
     1 dir tpt reachable ncalls call^ncalls peer naddrs (hasip ip)^naddrs nev (code a b c)^nev
       gconns gnotifs nidx idx^nidx
       dir 0: G dials R at the listed addresses; dir 1: R dials G, the single
       listed address is R's source address as G sees it.
       tpt = transport + 16 * opt; transport 0 tcp 1 quic 2 ws 3 webtransport, 4 a fake circuit
       transport behind the real swarm dial path, 5 the real gatedMaListener.Accept over a fake
       manet listener (informative);
       opt = what G's dial context carries: 0 plain, 1 WithForceDirectDial,
       2 WithSimultaneousConnect(client), 3 WithAllowLimitedConn, 4 WithNoDial (NewStream),
       5 (dir 1 only) a server-role QUIC hole punch of G towards R is in flight while the
       rules are written and R connects inbound.
       pipeline events recorded by the delegating gater / counting transport:
         1 p allow 0   InterceptPeerDial        2 idx allow 0  InterceptAddrDial (address idx)
         3 idx 0 0     transport Dial (idx)     4 allow 0 0    InterceptAccept
         5 0 0 0       the gated listener returned the connection (it goes on to the handshake)
         6 inb p allow InterceptSecured         7 allow 0 0    InterceptUpgraded
       gconns / gnotifs: G's ConnsToPeer(R) maximum and Connected notifications;
       idx^nidx: address index of each admitted connection on G (-1 unknown).

   resolver case (real swarm dial path: addrsForDial -> resolveAddrs -> filterKnownUndialables -> dial
   worker -> transport.  G knows R by IP and by /dns4 | /dns6 | /dns WebSocket addresses; the swarm's
   multiaddr resolver is scripted per name (error / answers); the transport is the real WebSocket
   transport with a recording Dial that, handed a name, looks it up itself — second scripted table —
   and opens the connection to that IP, as websocket.maDial does through net.ResolveTCPAddr):
     2 form ncalls call^ncalls peer nk kaddr^nk nev (code hasip ip allow)^nev
       kaddr := 0 ip tls | 1 ok n ip^n dnsk tls thas tip
                  ok 0: the swarm's resolver returns an error for the name (n = 0); ok 1: it answers
                  with these addresses (after the family filter of /dns4 and /dns6).  Informative,
                  for re-execution only: dnsk 0 /dns 4 /dns4 6 /dns6; tls 1 = /tls/ws; thas tip = what
                  the transport's own lookup of the name returns
       code 1 InterceptPeerDial (allow)      2 InterceptAddrDial (hasip ip: what ToIP gives; allow)
            3 transport Dial (hasip ip)      8 the transport opens a connection to ip
       form = informative (address templates used)

   DIAGNOSTICS  conform_case: [901; event; clause; detail] (gater), [901; clause; position] (e2e)
                monitor_case: [902; event; clause; detail] (gater) where
                  clause 1 probe answer (detail = probe index), 2/3/4 peer/address/subnet list,
                  5 an answer of the running gater differs from the reopened one's (detail = probe
                  index), 6/7/8 their peer/address/subnet lists differ;
                [902; clause; ...] (e2e), clauses listed at pipeline_ok;
                [902; clause; position] (resolver case), clauses listed at res_scan. *)
From Coq Require Import List NArith ZArith Bool.
From Verif Require Import lib.Wire c10.Model.
Import ListNotations.

(* ======================================================================== *)
(* The property's own vocabulary (independent of the model's step functions) *)
(* ======================================================================== *)
Local Open Scope N_scope.

(* an IP address as a mathematical object: family + value; the 16-byte form
   ::ffff:a.b.c.d (value / 2^32 = 0xffff) is the IPv4 address a.b.c.d
   (value mod 2^32); written with shifts so that the extracted monitor is fast:
   N.shiftr v 32 = v / 2^32, N.land v (N.ones 32) = v mod 2^32 *)
Definition norm_ip (a : ip) : bool * N :=
  match a with
  | IP4 v => (true, v)
  | IP16 v => if N.shiftr v 32 =? 65535 then (true, N.land v (N.ones 32)) else (false, v)
  end.

Definition fam_bits (is4 : bool) : N := if is4 then 32 else 128.

(* identity of a rule: a peer, an address, a subnet = (family, network number, length) *)
Inductive rid := IdPeer (p : Z) | IdAddr (is4 : bool) (v : N) | IdSubnet (is4 : bool) (nn len : N).

Definition rid_eqb (a b : rid) : bool :=
  match a, b with
  | IdPeer p, IdPeer q => Z.eqb p q
  | IdAddr f v, IdAddr g w => Bool.eqb f g && (v =? w)
  | IdSubnet f p l, IdSubnet g q m => Bool.eqb f g && (p =? q) && (l =? m)
  | _, _ => false
  end.

(* the subnet an IPNet denotes: family of the (normalised) network, the
   prefix length in that family (a 16-byte mask over an IPv4 network counts
   its last 32 bits), and the network number with the host bits cleared.
   [textual = false] is the identity of the property (and what the monitor
   uses): the same set of addresses is the same subnet.  [textual = true]
   keeps the host bits, i.e. identifies an IPNet by the text String() prints
   for it; it is only used in proofs, to relate IPNets to their String(). *)
(* the top [len] bits of a value of the family ([N.shiftr v k] = v / 2^k) *)
Definition top_bits (is4 : bool) (v len : N) : N := N.shiftr v (fam_bits is4 - len).

Definition clear_host (is4 : bool) (nn len : N) : N :=
  N.shiftl (top_bits is4 nn len) (fam_bits is4 - len).

Definition sub_id (textual is4 : bool) (nn len : N) : rid :=
  IdSubnet is4 (if textual then nn else clear_host is4 nn len) len.

Definition denote (textual : bool) (s : snet) : option rid :=
  let '(is4, nn) := norm_ip (s_ip s) in
  if is4 then Some (sub_id textual true nn (if s_m16 s then s_ones s - 96 else s_ones s))
  else if s_m16 s then Some (sub_id textual false nn (s_ones s))
  else None.

Definition den (id : rid) : rid :=
  match id with
  | IdSubnet f x len => IdSubnet f (clear_host f x len) len
  | _ => id
  end.

Definition rid_of_rule (textual : bool) (r : rule) : option rid :=
  match r with
  | RPeer p => Some (IdPeer p)
  | RAddr a => let '(f, v) := norm_ip a in Some (IdAddr f v)
  | RSubnet s => denote textual s
  end.

(* does a rule apply to a remote IP? *)
Definition rid_matches (id : rid) (a : ip) : bool :=
  let '(fa, va) := norm_ip a in
  match id with
  | IdPeer _ => false
  | IdAddr f v => Bool.eqb f fa && (v =? va)
  | IdSubnet f x len => Bool.eqb f fa && (top_bits f va len =? top_bits f x len)
  end.

(* what is known about a rule from the calls and their results alone:
   (may be blocked, may be unblocked).  A call that returned nil decides; a
   call that failed or was interrupted leaves both possibilities open. *)
Definition status := (bool * bool)%type.
Definition mstate := list (rid * status).

Definition st_of (ms : mstate) (id : rid) : status :=
  match a_find rid_eqb id ms with Some s => s | None => (false, true) end.

Definition mon_call (ms : mstate) (is_block : bool) (id : rid) (ok : bool) : mstate :=
  let '(b, u) := st_of ms id in
  a_put rid_eqb id (if ok then (is_block, negb is_block) else (b || is_block, u || negb is_block)) ms.

Definition is_B (s : status) : bool := fst s && negb (snd s).   (* certainly blocked *)
Definition is_U (s : status) : bool := negb (fst s).            (* certainly not blocked *)

Definition must_refuse (ms : mstate) (a : ip) : bool :=
  existsb (fun e : rid * status => rid_matches (fst e) a && is_B (snd e)) ms.
Definition must_allow (ms : mstate) (a : ip) : bool :=
  forallb (fun e : rid * status => negb (rid_matches (fst e) a) || is_U (snd e)) ms.

Inductive probe :=
  | PPeerDial (p : Z) | PAddrDial (a : option ip) | PAccept (a : option ip) | PSecured (inb : bool) (p : Z).

(* one probe answer judged by the property: a certainly-blocked peer /
   matching address is refused, a certainly-unblocked one is let through *)
Definition probe_ok (ms : mstate) (pr : probe) (allow : bool) : bool :=
  match pr with
  | PPeerDial p | PSecured true p =>
      let s := st_of ms (IdPeer p) in
      (if is_B s then negb allow else true) && (if is_U s then allow else true)
  | PSecured false _ => true
  | PAddrDial (Some a) | PAccept (Some a) =>
      (if must_refuse ms a then negb allow else true) && (if must_allow ms a then allow else true)
  | PAddrDial None | PAccept None => allow
  end.

Fixpoint probes_ok (ms : mstate) (i : Z) (prs : list probe) (ans : list bool) : option Z :=
  match prs, ans with
  | [], [] => None
  | pr :: r, a :: ra => if probe_ok ms pr a then probes_ok ms (i + 1)%Z r ra else Some i
  | _, _ => Some (-1)%Z
  end.

(* the rule lists judged by the property: every certainly-blocked rule is
   listed, nothing certainly-unblocked is *)
Definition peers_ok (ms : mstate) (l : list Z) : bool :=
  forallb (fun e : rid * status =>
             match fst e with
             | IdPeer p => negb (is_B (snd e)) || existsb (Z.eqb p) l
             | _ => true end) ms &&
  forallb (fun p => negb (is_U (st_of ms (IdPeer p)))) l.

Definition addr_id (a : ip) : rid := let '(f, v) := norm_ip a in IdAddr f v.

Definition addrs_ok (ms : mstate) (l : list ip) : bool :=
  forallb (fun e : rid * status =>
             match fst e with
             | IdAddr _ _ => negb (is_B (snd e)) || existsb (fun a => rid_eqb (addr_id a) (fst e)) l
             | _ => true end) ms &&
  forallb (fun a => negb (is_U (st_of ms (addr_id a)))) l.

Definition subnets_ok (ms : mstate) (l : list snet) : bool :=
  forallb (fun e : rid * status =>
             match fst e with
             | IdSubnet _ _ _ =>
                 negb (is_B (snd e)) ||
                 existsb (fun s => match denote false s with Some id => rid_eqb id (den (fst e)) | None => false end) l
             | _ => true end) ms &&
  forallb (fun s => match denote false s with
                    | Some id => existsb (fun e : rid * status => rid_eqb (den (fst e)) id && fst (snd e)) ms
                    | None => false end) l.

(* ======================================================================== *)
(* traces                                                                    *)
(* ======================================================================== *)
Local Open Scope Z_scope.
Record obs := mkObs {
  o_res : Z;
  o_ans : list bool;
  o_peers : list Z;
  o_addrs : list ip;
  o_subnets : list snet;
  (* the same four, answered by a gater opened on the same datastore right now *)
  o_rans : list bool;
  o_rpeers : list Z;
  o_raddrs : list ip;
  o_rsubnets : list snet
}.

Fixpoint first_diff_b (i : Z) (a b : list bool) : option Z :=
  match a, b with
  | [], [] => None
  | x :: ra, y :: rb => if Bool.eqb x y then first_diff_b (i + 1)%Z ra rb else Some i
  | _, _ => Some (-1)%Z
  end.

(* "Rules written through the gater survive a restart on the same datastore":
   whenever a call has returned — nil or an error — or the gater has been
   reopened, the running gater and a gater opened on the same datastore at
   that moment enforce the same rules: same Intercept* answers, same rule
   lists (peers by id, addresses by the address they denote, subnets by the
   set of addresses they denote).  A call that reports a datastore error must
   not leave memory and datastore disagreeing. *)
Definition incl_b {A} (eqb : A -> A -> bool) (l1 l2 : list A) : bool :=
  forallb (fun x => existsb (eqb x) l2) l1.
Definition same_rules {A} (eqb : A -> A -> bool) (l1 l2 : list A) : bool :=
  incl_b eqb l1 l2 && incl_b eqb l2 l1.
Definition addr_same (a b : ip) : bool :=
  let '(f, v) := norm_ip a in let '(g, w) := norm_ip b in Bool.eqb f g && (v =? w)%N.
Definition subnet_same (s t : snet) : bool :=
  match denote false s, denote false t with
  | Some x, Some y => rid_eqb x y
  | _, _ => false
  end.

Definition reopen_check (x : obs) : list Z :=
  match first_diff_b 0 (o_ans x) (o_rans x) with
  | Some i => [5; i]%Z
  | None =>
      if negb (same_rules Z.eqb (o_peers x) (o_rpeers x)) then [6; 0]%Z
      else if negb (same_rules addr_same (o_addrs x) (o_raddrs x)) then [7; 0]%Z
      else if negb (same_rules subnet_same (o_subnets x) (o_rsubnets x)) then [8; 0]%Z
      else []
  end.

Definition ev_op (e : event) : option op :=
  match e with
  | EOp o | EFail o | ECrashAfter o | ECrashBefore o => Some o
  | EReopen => None
  end.

Definition op_parts (o : op) : bool * rule :=
  match o with Block r => (true, r) | Unblock r => (false, r) end.

(* monitor step: update what is known from the call and its result, then
   judge the observations.  Diagnostic: [902; event index; clause; detail]
   clause 1 = probe answers, 2 = peer list, 3 = address list, 4 = subnet list *)
Definition mon_update (ms : mstate) (e : event) (res : Z) : option mstate :=
  match ev_op e with
  | None => Some ms
  | Some o =>
      let '(isb, r) := op_parts o in
      match rid_of_rule false r with
      | Some id => Some (mon_call ms isb id (Z.eqb res 0))
      | None => None
      end
  end.

Definition obs_check (ms : mstate) (prs : list probe) (x : obs) : list Z :=
  match probes_ok ms 0 prs (o_ans x) with
  | Some i => [1; i]%Z
  | None =>
      if negb (peers_ok ms (o_peers x)) then [2; 0]%Z
      else if negb (addrs_ok ms (o_addrs x)) then [3; 0]%Z
      else if negb (subnets_ok ms (o_subnets x)) then [4; 0]%Z
      else reopen_check x
  end.

Fixpoint monitor_trace (prs : list probe) (ms : mstate) (i : Z) (tr : list (event * obs)) : list Z :=
  match tr with
  | [] => []
  | (e, x) :: r =>
      match mon_update ms e (o_res x) with
      | None => [ERR_MALFORMED; i]
      | Some ms' =>
          match obs_check ms' prs x with
          | [] => monitor_trace prs ms' (i + 1)%Z r
          | d => ERR_PROPERTY :: i :: d
          end
      end
  end.

(* ---- the model's trace --------------------------------------------------- *)
Definition model_res (e : event) : Z :=
  match e with
  | EOp _ | EReopen => 0
  | EFail _ => 1
  | ECrashAfter _ | ECrashBefore _ => 2
  end%Z.

Definition probe_answer (m : rules) (pr : probe) : bool :=
  match pr with
  | PPeerDial p => intercept_peer_dial m p
  | PAddrDial a => intercept_addr_dial m a
  | PAccept a => intercept_accept m a
  | PSecured inb p => intercept_secured m inb p
  end.

Definition model_obs (prs : list probe) (e : event) (st : gstate) : obs :=
  let re := load_rules (g_ds st) in
  mkObs (model_res e) (map (probe_answer (g_mem st)) prs)
        (list_peers (g_mem st)) (list_addrs (g_mem st)) (list_subnets (g_mem st))
        (map (probe_answer re) prs) (list_peers re) (list_addrs re) (list_subnets re).

Fixpoint model_trace (prs : list probe) (st : gstate) (h : list event) : list (event * obs) :=
  match h with
  | [] => []
  | e :: r => let st' := step st e in (e, model_obs prs e st') :: model_trace prs st' r
  end.

(* ---- conformance: the model replays the calls and must observe the same -- *)
Definition ip_eqb (a b : ip) : bool :=
  match a, b with
  | IP4 x, IP4 y => (x =? y)%N
  | IP16 x, IP16 y => (x =? y)%N
  | _, _ => false
  end.

Definition snet_eqb (a b : snet) : bool :=
  ip_eqb (s_ip a) (s_ip b) && Bool.eqb (s_m16 a) (s_m16 b) && (s_ones a =? s_ones b)%N.

Definition same_set {A} (eqb : A -> A -> bool) (l1 l2 : list A) : bool :=
  Nat.eqb (length l1) (length l2) &&
  forallb (fun x => existsb (eqb x) l2) l1 && forallb (fun y => existsb (eqb y) l1) l2.

(* diagnostic: [901; event index; clause; detail]  clause 0 result, 1 probe, 2/3/4 lists,
   5 probe / 6/7/8 lists of the reopened gater *)
Definition obs_diff (m x : obs) : list Z :=
  if negb (Z.eqb (o_res m) (o_res x)) then [0; o_res m]%Z
  else match first_diff_b 0 (o_ans m) (o_ans x) with
       | Some i => [1; i]%Z
       | None =>
           if negb (same_set Z.eqb (o_peers m) (o_peers x)) then [2; 0]%Z
           else if negb (same_set ip_eqb (o_addrs m) (o_addrs x)) then [3; 0]%Z
           else if negb (same_set snet_eqb (o_subnets m) (o_subnets x)) then [4; 0]%Z
           else match first_diff_b 0 (o_rans m) (o_rans x) with
                | Some i => [5; i]%Z
                | None =>
                    if negb (same_set Z.eqb (o_rpeers m) (o_rpeers x)) then [6; 0]%Z
                    else if negb (same_set ip_eqb (o_raddrs m) (o_raddrs x)) then [7; 0]%Z
                    else if negb (same_set snet_eqb (o_rsubnets m) (o_rsubnets x)) then [8; 0]%Z
                    else []
                end
       end.

Fixpoint conform_trace (prs : list probe) (st : gstate) (i : Z) (tr : list (event * obs)) : list Z :=
  match tr with
  | [] => []
  | (e, x) :: r =>
      let st' := step st e in
      match obs_diff (model_obs prs e st') x with
      | [] => conform_trace prs st' (i + 1)%Z r
      | d => ERR_MISMATCH :: i :: d
      end
  end.

(* ======================================================================== *)
(* end-to-end cases                                                          *)
(* ======================================================================== *)
Record e2e := mkE2E {
  x_inbound : bool;
  x_opt : dialopt;
  x_reachable : bool;
  x_calls : list event;
  x_peer : Z;
  x_addrs : list (option ip);
  x_evs : list pev;
  x_gconns : Z;
  x_gnotifs : Z;
  x_idx : list Z
}.

Definition admitted (x : e2e) : bool := (0 <? x_gconns x)%Z || (0 <? x_gnotifs x)%Z.

(* what the calls (all of which returned nil) say about the rules *)
Fixpoint mon_calls (ms : mstate) (h : list event) : option mstate :=
  match h with
  | [] => Some ms
  | e :: r => match mon_update ms e (model_res e) with Some ms' => mon_calls ms' r | None => None end
  end.

Definition is_tdial (e : pev) : bool := match e with PvTransportDial _ => true | _ => false end.
Definition is_tdial_to (i : nat) (e : pev) : bool :=
  match e with PvTransportDial j => Nat.eqb i j | _ => false end.
Definition is_secured (e : pev) : bool := match e with PvSecured _ _ _ => true | _ => false end.
Definition is_upgraded (e : pev) : bool := match e with PvUpgraded _ => true | _ => false end.
Definition is_admitted (e : pev) : bool := match e with PvConnected => true | _ => false end.
Definition is_handshake (e : pev) : bool := match e with PvHandshake => true | _ => false end.

Definition addr_must_refuse (ms : mstate) (a : option ip) : bool :=
  match a with Some x => must_refuse ms x | None => false end.

Fixpoint idx_addrs {A} (i : nat) (l : list A) : list (nat * A) :=
  match l with [] => [] | a :: r => (i, a) :: idx_addrs (S i) r end.

(* The property on one pipeline trace [evs] with the admission verdict [adm]
   and the addresses of the admitted connections [idx].  Clauses:
     10 outbound, peer blocked: a transport dial happened
     11 outbound, peer blocked: a connection was admitted
     12 outbound: transport dial to a blocked address
     13 outbound: admitted connection over a blocked address
     20 inbound, address blocked: the connection got past accept (handshake / secured / upgraded seen)
     21 inbound, address blocked: admitted
     22 inbound, peer blocked: got past the post-handshake gate (upgraded seen)
     23 inbound, peer blocked: admitted *)
Definition pipeline_ok (ms : mstate) (inb : bool) (p : Z) (addrs : list (option ip))
           (evs : list pev) (adm : bool) (idx : list Z) : list Z :=
  let pB := is_B (st_of ms (IdPeer p)) in
  if negb inb then
    if pB && existsb is_tdial evs then [10]%Z
    else if pB && adm then [11]%Z
    else
      match find (fun ia : nat * option ip =>
                    addr_must_refuse ms (snd ia) && existsb (is_tdial_to (fst ia)) evs)
                 (idx_addrs 0 addrs) with
      | Some ia => [12; Z.of_nat (fst ia)]%Z
      | None =>
          match find (fun ia : nat * option ip =>
                        addr_must_refuse ms (snd ia) && existsb (Z.eqb (Z.of_nat (fst ia))) idx)
                     (idx_addrs 0 addrs) with
          | Some ia => if adm then [13; Z.of_nat (fst ia)]%Z else []
          | None => []
          end
      end
  else
    let aB := match addrs with a :: _ => addr_must_refuse ms a | [] => false end in
    if aB && (existsb is_handshake evs || existsb is_secured evs || existsb is_upgraded evs) then [20]%Z
    else if aB && adm then [21]%Z
    else if pB && existsb is_upgraded evs then [22]%Z
    else if pB && adm then [23]%Z
    else [].

Definition monitor_e2e (x : e2e) : list Z :=
  match mon_calls [] (x_calls x) with
  | None => [ERR_MALFORMED; 10]
  | Some ms =>
      match pipeline_ok ms (x_inbound x) (x_peer x) (x_addrs x) (x_evs x) (admitted x) (x_idx x) with
      | [] => []
      | d => ERR_PROPERTY :: d
      end
  end.

(* model of an end-to-end run: the full gate list, every allowed dial
   succeeds *)
Definition model_pipeline (x : e2e) : list pev :=
  let m := g_mem (run init_state (x_calls x)) in
  if x_inbound x then inbound full_sites m (x_peer x) (hd None (x_addrs x))
  else outbound_opt full_sites (x_opt x) m (x_peer x) (x_addrs x).

(* conformance for an end-to-end run.  The real dialer is concurrent and
   stops at the first success, so the recorded events are compared as
   follows: every recorded gate answer equals the model's answer for the
   same arguments; a recorded transport dial is one the model makes; a
   connection is admitted only if the model admits one, and (when the
   harness built a reachable, unblocked address) is admitted if the model
   admits one.  Diagnostic [901; clause; position]. *)
Definition gate_answer (m : rules) (x : e2e) (e : pev) : option bool :=
  match e with
  | PvPeerDial p _ => Some (intercept_peer_dial m p)
  | PvAddrDial i _ => Some (intercept_addr_dial m (nth i (x_addrs x) None))
  | PvAccept _ => Some (intercept_accept m (hd None (x_addrs x)))
  | PvSecured inb p _ => Some (intercept_secured m inb p)
  | PvUpgraded _ => Some (intercept_upgraded m)
  | _ => None
  end.

Definition pev_allow (e : pev) : bool :=
  match e with
  | PvPeerDial _ a | PvAddrDial _ a | PvAccept a | PvSecured _ _ a | PvUpgraded a => a
  | _ => true
  end.

Fixpoint conform_evs (m : rules) (x : e2e) (mp : list pev) (i : Z) (evs : list pev) : list Z :=
  match evs with
  | [] => []
  | e :: r =>
      let bad :=
        match gate_answer m x e with
        | Some a => negb (Bool.eqb a (pev_allow e))
        | None =>
            match e with
            | PvTransportDial j => negb (existsb (is_tdial_to j) mp)
            | PvHandshake => negb (existsb is_handshake mp)
            | _ => false
            end
        end in
      if bad then [ERR_MISMATCH; 1; i]%Z else conform_evs m x mp (i + 1)%Z r
  end.

Definition conform_e2e (x : e2e) : list Z :=
  let m := g_mem (run init_state (x_calls x)) in
  let mp := model_pipeline x in
  match conform_evs m x mp 0 (x_evs x) with
  | [] =>
      let madm := existsb is_admitted mp in
      if admitted x && negb madm then [ERR_MISMATCH; 2; 0]%Z
      else if x_reachable x && madm && negb (admitted x) then [ERR_MISMATCH; 3; 0]%Z
      else []
  | d => d
  end.

(* ======================================================================== *)
(* resolver cases: addresses known by name                                    *)
(* ======================================================================== *)
Record rcase := mkRcase {
  rc_calls : list event;
  rc_peer : Z;
  rc_addrs : list kaddr;
  rc_evs : list rev
}.

(* The property on the recorded events of one outbound dial: "outbound dials are
   refused before any transport dial to a blocked peer or address ... for every
   textual form of the address (addresses with and without IP component)".  Clauses:
     30 the peer is blocked: a transport was handed an address / opened a connection
     31 a transport was handed an address whose IP is blocked
     32 a transport opened a connection to an IP that is blocked — whatever textual
        form (an IP address or a name) the address it was handed had
   Diagnostic [902; clause; position]. *)
Fixpoint res_scan (ms : mstate) (pB : bool) (i : Z) (evs : list rev) : list Z :=
  match evs with
  | [] => []
  | e :: r =>
      match e with
      | RvTptDial oa =>
          if pB then [30; i]%Z else if addr_must_refuse ms oa then [31; i]%Z else res_scan ms pB (i + 1)%Z r
      | RvTptConn a =>
          if pB then [30; i]%Z else if must_refuse ms a then [32; i]%Z else res_scan ms pB (i + 1)%Z r
      | _ => res_scan ms pB (i + 1)%Z r
      end
  end.

Definition monitor_res (x : rcase) : list Z :=
  match mon_calls [] (rc_calls x) with
  | None => [ERR_MALFORMED; 20]
  | Some ms =>
      match res_scan ms (is_B (st_of ms (IdPeer (rc_peer x)))) 0 (rc_evs x) with
      | [] => []
      | d => ERR_PROPERTY :: d
      end
  end.

Definition oip_eqb (a b : option ip) : bool :=
  match a, b with
  | Some x, Some y => ip_eqb x y
  | None, None => true
  | _, _ => false
  end.

Definition rev_eqb (a b : rev) : bool :=
  match a, b with
  | RvPeerDial x, RvPeerDial y => Bool.eqb x y
  | RvAddrDial x u, RvAddrDial y v => oip_eqb x y && Bool.eqb u v
  | RvTptDial x, RvTptDial y => oip_eqb x y
  | RvTptConn x, RvTptConn y => ip_eqb x y
  | _, _ => false
  end.

(* conformance: the real dialer is concurrent, de-duplicates addresses and may stop
   early, so every recorded event must be one the model produces (same gate answer
   for the same address; only addresses the model resolves to are gated, dialed and
   connected to).  Diagnostic [901; 1; position]. *)
Fixpoint conform_revs (mp : list rev) (i : Z) (evs : list rev) : list Z :=
  match evs with
  | [] => []
  | e :: r => if existsb (rev_eqb e) mp then conform_revs mp (i + 1)%Z r else [ERR_MISMATCH; 1; i]%Z
  end.

Definition conform_res (x : rcase) : list Z :=
  let m := g_mem (run init_state (rc_calls x)) in
  conform_revs (rdial m (rc_peer x) (rc_addrs x)) 0 (rc_evs x).

(* ======================================================================== *)
(* wire decoding                                                             *)
(* ======================================================================== *)
Local Open Scope Z_scope.

Definition W32 : Z := 4294967296.
Definition word_ok (z : Z) : bool := (0 <=? z) && (z <? W32).

Definition dec_ip (f a b c d : Z) : option ip :=
  if word_ok a && word_ok b && word_ok c && word_ok d then
    if f =? 4 then
      if (a =? 0) && (b =? 0) && (c =? 0) then Some (IP4 (Z.to_N d)) else None
    else if f =? 16 then Some (IP16 (Z.to_N (((a * W32 + b) * W32 + c) * W32 + d)))
    else None
  else None.

Definition dec_snet (f a b c d m16 ones : Z) : option snet :=
  match dec_ip f a b c d with
  | Some i =>
      if (0 <=? ones) && ((m16 =? 0) || (m16 =? 1)) then
        let s := mkSnet i (zbool m16) (Z.to_N ones) in
        if wf_snetb s then match snet_key s with Some _ => Some s | None => None end else None
      else None
  | None => None
  end.

Definition dec_rule (k x1 x2 x3 x4 x5 x6 x7 : Z) : option rule :=
  if k =? 0 then Some (RPeer x1)
  else if k =? 1 then option_map RAddr (dec_ip x1 x2 x3 x4 x5)
  else if k =? 2 then option_map RSubnet (dec_snet x1 x2 x3 x4 x5 x6 x7)
  else None.

Definition dec_call (ev opk k x1 x2 x3 x4 x5 x6 x7 : Z) : option event :=
  if ev =? 4 then Some EReopen else
  match dec_rule k x1 x2 x3 x4 x5 x6 x7 with
  | None => None
  | Some r =>
      let o := if opk =? 0 then Block r else Unblock r in
      if (opk =? 0) || (opk =? 1) then
        if ev =? 0 then Some (EOp o) else if ev =? 1 then Some (EFail o)
        else if ev =? 2 then Some (ECrashAfter o) else if ev =? 3 then Some (ECrashBefore o)
        else None
      else None
  end.

Definition dec_oip (has f a b c d : Z) : option (option ip) :=
  if has =? 0 then Some None
  else match dec_ip f a b c d with Some i => Some (Some i) | None => None end.

Definition dec_probe (k x f a b c d : Z) : option probe :=
  if k =? 1 then Some (PPeerDial x)
  else if k =? 2 then option_map PAddrDial (dec_oip x f a b c d)
  else if k =? 3 then option_map PAccept (dec_oip x f a b c d)
  else if k =? 4 then Some (PSecured true x)
  else if k =? 5 then Some (PSecured false x)
  else None.

Fixpoint dec_probes (n : nat) (l : list Z) : option (list probe * list Z) :=
  match n with
  | O => Some ([], l)
  | S n' =>
      match l with
      | k :: x :: f :: a :: b :: c :: d :: _tpt :: r =>
          match dec_probe k x f a b c d, dec_probes n' r with
          | Some p, Some (ps, r') => Some (p :: ps, r')
          | _, _ => None
          end
      | _ => None
      end
  end.

Fixpoint dec_bools (n : nat) (l : list Z) : option (list bool * list Z) :=
  match n with
  | O => Some ([], l)
  | S n' =>
      match l with
      | z :: r =>
          if (z =? 0) || (z =? 1) then
            match dec_bools n' r with Some (bs, r') => Some (zbool z :: bs, r') | None => None end
          else None
      | [] => None
      end
  end.

Fixpoint dec_zs (n : nat) (l : list Z) : option (list Z * list Z) :=
  match n with
  | O => Some ([], l)
  | S n' =>
      match l with
      | z :: r => match dec_zs n' r with Some (zs, r') => Some (z :: zs, r') | None => None end
      | [] => None
      end
  end.

Fixpoint dec_ips (n : nat) (l : list Z) : option (list ip * list Z) :=
  match n with
  | O => Some ([], l)
  | S n' =>
      match l with
      | f :: a :: b :: c :: d :: r =>
          match dec_ip f a b c d, dec_ips n' r with
          | Some i, Some (is, r') => Some (i :: is, r')
          | _, _ => None
          end
      | _ => None
      end
  end.

Fixpoint dec_snets (n : nat) (l : list Z) : option (list snet * list Z) :=
  match n with
  | O => Some ([], l)
  | S n' =>
      match l with
      | f :: a :: b :: c :: d :: m :: o :: r =>
          match dec_snet f a b c d m o, dec_snets n' r with
          | Some s, Some (ss, r') => Some (s :: ss, r')
          | _, _ => None
          end
      | _ => None
      end
  end.

Definition cnt (z : Z) : option nat := if (0 <=? z) && (z <? 100000) then Some (Z.to_nat z) else None.

(* ans^np  np p^np  na ip^na  ns (ip m16 ones)^ns *)
Definition dec_view (np : nat) (l : list Z) : option ((list bool * list Z * list ip * list snet) * list Z) :=
  match dec_bools np l with
  | Some (ans, n1 :: r2) =>
      match cnt n1 with
      | Some c1 =>
          match dec_zs c1 r2 with
          | Some (ps, n2 :: r3) =>
              match cnt n2 with
              | Some c2 =>
                  match dec_ips c2 r3 with
                  | Some (is, n3 :: r4) =>
                      match cnt n3 with
                      | Some c3 =>
                          match dec_snets c3 r4 with
                          | Some (ss, r5) => Some ((ans, ps, is, ss), r5)
                          | None => None
                          end
                      | None => None
                      end
                  | _ => None
                  end
              | None => None
              end
          | _ => None
          end
      | None => None
      end
  | _ => None
  end.

Definition dec_event (np : nat) (l : list Z) : option ((event * obs) * list Z) :=
  match l with
  | ev :: opk :: k :: x1 :: x2 :: x3 :: x4 :: x5 :: x6 :: x7 :: res :: r0 =>
      match dec_call ev opk k x1 x2 x3 x4 x5 x6 x7, dec_view np r0 with
      | Some e, Some ((ans, ps, is, ss), r1) =>
          match dec_view np r1 with
          | Some ((rans, rps, ris, rss), r2) => Some ((e, mkObs res ans ps is ss rans rps ris rss), r2)
          | None => None
          end
      | _, _ => None
      end
  | _ => None
  end.

Fixpoint dec_events (np n : nat) (l : list Z) : option (list (event * obs) * list Z) :=
  match n with
  | O => Some ([], l)
  | S n' =>
      match dec_event np l with
      | Some (e, r) =>
          match dec_events np n' r with Some (es, r') => Some (e :: es, r') | None => None end
      | None => None
      end
  end.

Definition dec_gater (l : list Z) : option (list probe * list (event * obs)) :=
  match l with
  | np :: r =>
      match cnt np with
      | Some c =>
          match dec_probes c r with
          | Some (prs, nev :: r1) =>
              match cnt nev with
              | Some ce =>
                  match dec_events c ce r1 with
                  | Some (tr, []) => Some (prs, tr)
                  | _ => None
                  end
              | None => None
              end
          | _ => None
          end
      | None => None
      end
  | [] => None
  end.

Fixpoint dec_calls (n : nat) (l : list Z) : option (list event * list Z) :=
  match n with
  | O => Some ([], l)
  | S n' =>
      match l with
      | ev :: opk :: k :: x1 :: x2 :: x3 :: x4 :: x5 :: x6 :: x7 :: r =>
          match dec_call ev opk k x1 x2 x3 x4 x5 x6 x7 with
          | Some (EOp o) =>
              match dec_calls n' r with Some (es, r') => Some (EOp o :: es, r') | None => None end
          | Some EReopen =>
              match dec_calls n' r with Some (es, r') => Some (EReopen :: es, r') | None => None end
          | _ => None
          end
      | _ => None
      end
  end.

Fixpoint dec_oips (n : nat) (l : list Z) : option (list (option ip) * list Z) :=
  match n with
  | O => Some ([], l)
  | S n' =>
      match l with
      | h :: f :: a :: b :: c :: d :: r =>
          match dec_oip h f a b c d, dec_oips n' r with
          | Some i, Some (is, r') => Some (i :: is, r')
          | _, _ => None
          end
      | _ => None
      end
  end.

Definition dec_pev (c a b d : Z) : option pev :=
  if c =? 1 then Some (PvPeerDial a (zbool b))
  else if c =? 2 then (if 0 <=? a then Some (PvAddrDial (Z.to_nat a) (zbool b)) else None)
  else if c =? 3 then (if 0 <=? a then Some (PvTransportDial (Z.to_nat a)) else None)
  else if c =? 4 then Some (PvAccept (zbool a))
  else if c =? 5 then Some PvHandshake
  else if c =? 6 then Some (PvSecured (zbool a) b (zbool d))
  else if c =? 7 then Some (PvUpgraded (zbool a))
  else None.

Fixpoint dec_pevs (n : nat) (l : list Z) : option (list pev * list Z) :=
  match n with
  | O => Some ([], l)
  | S n' =>
      match l with
      | c :: a :: b :: d :: r =>
          match dec_pev c a b d, dec_pevs n' r with
          | Some e, Some (es, r') => Some (e :: es, r')
          | _, _ => None
          end
      | _ => None
      end
  end.

Definition dec_opt (z : Z) : dialopt :=
  if z =? 1 then OForceDirect else if z =? 2 then OSimConnect else if z =? 3 then OAllowLimited
  else if z =? 4 then ONoDial else if z =? 5 then OSimConnect else OPlain.

Definition dec_e2e (l : list Z) : option e2e :=
  match l with
  | dir :: tpt :: reach :: nc :: r0 =>
      match cnt nc with
      | Some c0 =>
          match dec_calls c0 r0 with
          | Some (calls, p :: na :: r1) =>
              match cnt na with
              | Some c1 =>
                  match dec_oips c1 r1 with
                  | Some (addrs, ne :: r2) =>
                      match cnt ne with
                      | Some c2 =>
                          match dec_pevs c2 r2 with
                          | Some (evs, gc :: gn :: ni :: r3) =>
                              match cnt ni with
                              | Some c3 =>
                                  match dec_zs c3 r3 with
                                  | Some (idx, []) =>
                                      if ((dir =? 0) || (dir =? 1)) && ((dir =? 0) || (c1 =? 1)%nat)
                                      then Some (mkE2E (zbool dir) (dec_opt (tpt / 16)) (zbool reach) calls p addrs evs gc gn idx)
                                      else None
                                  | _ => None
                                  end
                              | None => None
                              end
                          | _ => None
                          end
                      | None => None
                      end
                  | _ => None
                  end
              | None => None
              end
          | _ => None
          end
      | None => None
      end
  | _ => None
  end.

Fixpoint dec_kaddrs (n : nat) (l : list Z) : option (list kaddr * list Z) :=
  match n with
  | O => Some ([], l)
  | S n' =>
      match l with
      | 0 :: f :: a :: b :: c :: d :: _tls :: r =>
          match dec_ip f a b c d, dec_kaddrs n' r with
          | Some i, Some (ks, r') => Some (KIp i :: ks, r')
          | _, _ => None
          end
      | 1 :: ok :: cn :: r =>
          match cnt cn with
          | Some c =>
              match dec_ips c r with
              | Some (is, _dnsk :: _tls :: _th :: _t0 :: _t1 :: _t2 :: _t3 :: _t4 :: r1) =>
                  match dec_kaddrs n' r1 with
                  | Some (ks, r') =>
                      if ok =? 1 then Some (KName (Some is) :: ks, r')
                      else if (ok =? 0) && (cn =? 0) then Some (KName None :: ks, r')
                      else None
                  | None => None
                  end
              | _ => None
              end
          | None => None
          end
      | _ => None
      end
  end.

Definition dec_rev (c h f a b d e al : Z) : option rev :=
  if negb ((al =? 0) || (al =? 1)) then None
  else if c =? 1 then Some (RvPeerDial (zbool al))
  else if c =? 2 then option_map (fun o => RvAddrDial o (zbool al)) (dec_oip h f a b d e)
  else if c =? 3 then option_map RvTptDial (dec_oip h f a b d e)
  else if c =? 8 then option_map RvTptConn (dec_ip f a b d e)
  else None.

Fixpoint dec_revs (n : nat) (l : list Z) : option (list rev * list Z) :=
  match n with
  | O => Some ([], l)
  | S n' =>
      match l with
      | c :: h :: f :: a :: b :: d :: e :: al :: r =>
          match dec_rev c h f a b d e al, dec_revs n' r with
          | Some x, Some (xs, r') => Some (x :: xs, r')
          | _, _ => None
          end
      | _ => None
      end
  end.

Definition dec_rcase (l : list Z) : option rcase :=
  match l with
  | _form :: nc :: r0 =>
      match cnt nc with
      | Some c0 =>
          match dec_calls c0 r0 with
          | Some (calls, p :: nk :: r1) =>
              match cnt nk with
              | Some c1 =>
                  match dec_kaddrs c1 r1 with
                  | Some (ks, ne :: r2) =>
                      match cnt ne with
                      | Some c2 =>
                          match dec_revs c2 r2 with
                          | Some (evs, []) => Some (mkRcase calls p ks evs)
                          | _ => None
                          end
                      | None => None
                      end
                  | _ => None
                  end
              | None => None
              end
          | _ => None
          end
      | None => None
      end
  | _ => None
  end.

Definition conform_case (l : list Z) : list Z :=
  match l with
  | 0 :: r =>
      match dec_gater r with
      | Some (prs, tr) => conform_trace prs init_state 0 tr
      | None => [ERR_MALFORMED; 0]
      end
  | 1 :: r =>
      match dec_e2e r with
      | Some x => conform_e2e x
      | None => [ERR_MALFORMED; 1]
      end
  | 2 :: r =>
      match dec_rcase r with
      | Some x => conform_res x
      | None => [ERR_MALFORMED; 3]
      end
  | _ => [ERR_MALFORMED; 2]
  end.

Definition monitor_case (l : list Z) : list Z :=
  match l with
  | 0 :: r =>
      match dec_gater r with
      | Some (prs, tr) => monitor_trace prs [] 0 tr
      | None => [ERR_MALFORMED; 0]
      end
  | 1 :: r =>
      match dec_e2e r with
      | Some x => monitor_e2e x
      | None => [ERR_MALFORMED; 1]
      end
  | 2 :: r =>
      match dec_rcase r with
      | Some x => monitor_res x
      | None => [ERR_MALFORMED; 3]
      end
  | _ => [ERR_MALFORMED; 2]
  end.

(* C10 — the property monitor accepts every trace of the model. *)
From Coq Require Import List NArith ZArith Bool Lia.
From Verif Require Import lib.Wire c10.Model c10.Spec c10.Proofs_ip c10.Proofs.
Import ListNotations.
Local Opaque N.shiftr N.shiftl N.land N.lor N.ones N.pow N.testbit.

(* coupling between what the monitor knows and what the model enforces *)
Definition R (ms : mstate) (m : rules) : Prop :=
  (forall id s, In (id, s) ms -> fst s = true \/ snd s = true) /\
  (forall id s, In (id, s) ms -> is_B s = true -> model_has m id) /\
  (forall id, model_has m id -> fst (st_of ms id) = true).

Lemma st_of_cases : forall ms id,
  In (id, st_of ms id) ms \/ (st_of ms id = (false, true) /\ forall s, ~ In (id, s) ms).
Proof.
  intros ms id. unfold st_of. destruct (a_find rid_eqb id ms) eqn:E.
  - left. apply (a_find_In _ rid_eqb_spec), E.
  - right. split; [reflexivity|]. apply (a_find_None _ rid_eqb_spec), E.
Qed.

Lemma st_of_put : forall ms id new id',
  st_of (a_put rid_eqb id new ms) id' = if rid_eqb id' id then new else st_of ms id'.
Proof.
  intros. unfold st_of. rewrite (a_find_put _ rid_eqb_spec). destruct (rid_eqb id' id); reflexivity.
Qed.

Lemma R_nil : R [] empty_rules.
Proof.
  split; [intros ? ? []|]. split; [intros ? ? []|].
  intros [p|f v|f x l]; cbn; [tauto|tauto|intros [? []]].
Qed.

Lemma R_old_status : forall ms m id, R ms m -> fst (st_of ms id) = true \/ snd (st_of ms id) = true.
Proof.
  intros ms m id (R0 & _ & _). destruct (st_of_cases ms id) as [H|[H _]].
  - eapply R0, H.
  - rewrite H. auto.
Qed.

Lemma R_call : forall ms m m' isb id ok,
  R ms m ->
  (forall id', id' <> id -> (model_has m' id' <-> model_has m id')) ->
  (ok = true -> (model_has m' id <-> isb = true)) ->
  (ok = false -> (model_has m' id <-> model_has m id) \/ (model_has m' id <-> isb = true)) ->
  R (mon_call ms isb id ok) m'.
Proof.
  intros ms m m' isb id ok HR Hoth Hok Hno.
  pose proof (R_old_status ms m id HR) as Hold.
  destruct HR as (R0 & R1 & R2).
  unfold mon_call. destruct (st_of ms id) as [b u] eqn:Est. cbn [fst snd] in Hold.
  set (new := if ok then (isb, negb isb) else (b || isb, u || negb isb)).
  assert (Hnew : fst new = true \/ snd new = true).
  { unfold new. destruct ok; cbn; [destruct isb; auto|]. destruct Hold as [->| ->]; cbn; auto. }
  split; [|split].
  - intros id' s H. apply (In_a_put _ rid_eqb_spec) in H. destruct H as [[_ ->]|[H _]]; [exact Hnew|eauto].
  - intros id' s H HB. apply (In_a_put _ rid_eqb_spec) in H. destruct H as [[-> ->]|[H N]].
    + unfold new, is_B in HB. destruct ok; cbn in HB.
      * apply Hok; [reflexivity|]. destruct isb; [reflexivity|discriminate].
      * apply andb_true_iff in HB. destruct HB as [H1 H2]. apply negb_true_iff, orb_false_iff in H2.
        destruct H2 as [Hu Hi]. apply negb_false_iff in Hi. subst u isb.
        destruct Hold as [Hb|Hb]; [|discriminate]. subst b.
        assert (Hm : model_has m id).
        { destruct (st_of_cases ms id) as [Hin|[Hd _]]; [|rewrite Est in Hd; discriminate].
          rewrite Est in Hin. apply (R1 id (true, false) Hin). reflexivity. }
        destruct (Hno eq_refl) as [E|E]; apply E; auto.
    + apply Hoth; [exact N|]. eapply R1; eassumption.
  - intros id' Hm. rewrite st_of_put. destruct (rid_eqb id' id) eqn:E.
    + apply rid_eqb_spec in E. subst id'. unfold new. destruct ok; cbn.
      * apply Hok; auto.
      * destruct (Hno eq_refl) as [E|E].
        -- apply E in Hm. apply R2 in Hm. rewrite Est in Hm. cbn in Hm. subst b. reflexivity.
        -- apply E in Hm. subst isb. apply orb_true_r.
    + apply R2, Hoth; [|exact Hm]. intro H. apply rid_eqb_spec in H. congruence.
Qed.

Lemma R_same_model : forall ms m m', R ms m -> (forall id, model_has m' id <-> model_has m id) -> R ms m'.
Proof.
  intros ms m m' (R0 & R1 & R2) H. split; [exact R0|]. split.
  - intros id s Hi HB. apply H. eapply R1; eassumption.
  - intros id Hm. apply R2, H, Hm.
Qed.

Lemma op_parts_eq : forall o, op_parts o = (op_block o, op_rule o).
Proof. intros [r|r]; reflexivity. Qed.

(* one event: the monitor's knowledge stays coupled to the model *)
Lemma R_step : forall st e ms, wf_event e -> Inv st -> R ms (g_mem st) ->
  exists ms', mon_update ms e (model_res e) = Some ms' /\ R ms' (g_mem (step st e)).
Proof.
  intros st e ms Hw Hi HR. pose proof (model_has_step st e) as Hstep.
  unfold mon_update. destruct (ev_op e) as [o|] eqn:Eo.
  - rewrite op_parts_eq. unfold wf_event in Hw. rewrite Eo in Hw.
    rewrite (rid_of_rule_tid _ Hw). eexists. split; [reflexivity|].
    assert (Hw' : wf_event e) by (unfold wf_event; rewrite Eo; exact Hw).
    destruct e as [o'|o'|o'|o'|]; cbn in Eo; inversion Eo; subst o'; cbn [model_res].
    + apply (R_call ms (g_mem st)); [exact HR| | |discriminate].
      * intros id' N. rewrite (Hstep id' Hw' Hi).
        destruct (rid_eqb id' (tid (op_rule o))) eqn:E; [apply rid_eqb_spec in E; congruence|tauto].
      * intros _. rewrite (Hstep _ Hw' Hi). rewrite (proj2 (rid_eqb_spec _ _) eq_refl). tauto.
    + apply (R_call ms (g_mem st)); [exact HR| |discriminate|].
      * intros id' N. rewrite (Hstep id' Hw' Hi). tauto.
      * intros _. left. rewrite (Hstep _ Hw' Hi). tauto.
    + apply (R_call ms (g_mem st)); [exact HR| |discriminate|].
      * intros id' N. rewrite (Hstep id' Hw' Hi).
        destruct (rid_eqb id' (tid (op_rule o))) eqn:E; [apply rid_eqb_spec in E; congruence|tauto].
      * intros _. right. rewrite (Hstep _ Hw' Hi). rewrite (proj2 (rid_eqb_spec _ _) eq_refl). tauto.
    + apply (R_call ms (g_mem st)); [exact HR| |discriminate|].
      * intros id' N. rewrite (Hstep id' Hw' Hi). tauto.
      * intros _. left. rewrite (Hstep _ Hw' Hi). tauto.
  - exists ms. split; [reflexivity|]. destruct e; cbn in Eo; try discriminate.
    apply (R_same_model ms (g_mem st)); [exact HR|]. intros id. apply (Hstep id Hw Hi).
Qed.

(* ---- judging the model's own observations ------------------------------------ *)
Definition mem_ok (m : rules) : Prop :=
  (forall k, In k (r_addrs m) -> wf_akey k) /\ (forall k s, In (k, s) (r_subnets m) -> sn_ok k s).

Lemma Inv_mem_ok : forall st, Inv st -> mem_ok (g_mem st).
Proof. intros st [_ (_ & _ & _ & Wa & Ws)]. split; assumption. Qed.

Lemma matches_self : forall a, rid_matches (addr_id a) a = true.
Proof.
  intros a. unfold addr_id, rid_matches. destruct (norm_ip a) as [f v].
  rewrite eqb_reflx, N.eqb_refl. reflexivity.
Qed.

Lemma id_of_skey_akey_of : forall f nn len, id_of_skey (akey_of f nn, len) = IdSubnet f nn len.
Proof. intros [|]; reflexivity. Qed.

Lemma refused_iff : forall m a, mem_ok m -> wf_ip a ->
  (ip_refused m a = true <-> exists id, model_has m id /\ rid_matches id a = true).
Proof.
  intros m a [Wa Ws] Ha. unfold ip_refused. rewrite orb_true_iff, (s_mem_In _ akey_eqb_spec), existsb_exists.
  split.
  - intros [H|[[k s] [H1 H2]]].
    + exists (addr_id a). split; [|apply matches_self]. rewrite addr_id_ipkey. apply model_has_akey, H.
    + exists (id_of_skey k). split; [apply model_has_skey; eauto|].
      destruct (Ws k s H1) as (_ & Hc & _). rewrite <- Hc by assumption. exact H2.
  - intros [[p|f v|f nn len] [Hm Hr]].
    + unfold rid_matches in Hr. destruct (norm_ip a); discriminate.
    + left. cbn in Hm. rewrite ipkey_norm. unfold rid_matches in Hr. destruct (norm_ip a) as [fa va].
      apply andb_true_iff in Hr. destruct Hr as [H1 H2]. apply eqb_prop in H1. apply N.eqb_eq in H2.
      subst. exact Hm.
    + right. cbn in Hm. destruct Hm as [s Hs]. exists ((akey_of f nn, len), s). split; [exact Hs|].
      destruct (Ws _ s Hs) as (_ & Hc & _). cbn [snd]. rewrite Hc by assumption.
      rewrite id_of_skey_akey_of. exact Hr.
Qed.

Lemma must_refuse_sound : forall ms m a, R ms m -> mem_ok m -> wf_ip a ->
  must_refuse ms a = true -> ip_refused m a = true.
Proof.
  intros ms m a (_ & R1 & _) Hok Ha H. unfold must_refuse in H. apply existsb_exists in H.
  destruct H as [[id s] [Hin H]]. cbn in H. apply andb_true_iff in H. destruct H as [Hm HB].
  apply refused_iff; [assumption|assumption|]. exists id. split; [eapply R1; eassumption|exact Hm].
Qed.

Lemma must_allow_sound : forall ms m a, R ms m -> mem_ok m -> wf_ip a ->
  must_allow ms a = true -> ip_refused m a = false.
Proof.
  intros ms m a (_ & _ & R2) Hok Ha H. destruct (ip_refused m a) eqn:E; [|reflexivity].
  apply refused_iff in E; [|assumption|assumption]. destruct E as [id [Hm Hr]].
  apply R2 in Hm. destruct (st_of_cases ms id) as [Hin|[Hd _]]; [|rewrite Hd in Hm; discriminate].
  unfold must_allow in H. rewrite forallb_forall in H. specialize (H _ Hin). cbn in H.
  rewrite Hr in H. unfold is_U in H. rewrite Hm in H. discriminate.
Qed.

Definition wf_probe (pr : probe) : Prop :=
  match pr with
  | PAddrDial (Some a) | PAccept (Some a) => wf_ip a
  | _ => True
  end.

Lemma peer_answer_ok : forall ms m p, R ms m ->
  let s := st_of ms (IdPeer p) in
  (if is_B s then negb (negb (peer_blocked m p)) else true) &&
  (if is_U s then negb (peer_blocked m p) else true) = true.
Proof.
  intros ms m p (_ & R1 & R2) s. apply andb_true_iff. split.
  - destruct (is_B s) eqn:EB; [|reflexivity]. rewrite negb_involutive.
    destruct (st_of_cases ms (IdPeer p)) as [Hin|[Hd _]].
    + apply (s_mem_In _ zeqb_spec). apply (R1 _ _ Hin EB).
    + subst s. rewrite Hd in EB. discriminate.
  - destruct (is_U s) eqn:EU; [|reflexivity]. apply negb_true_iff.
    destruct (peer_blocked m p) eqn:E; [|reflexivity].
    apply (s_mem_In _ zeqb_spec) in E. apply (R2 (IdPeer p)) in E. unfold is_U in EU. fold s in E.
    rewrite E in EU. discriminate.
Qed.

Lemma addr_answer_ok : forall ms m a, R ms m -> mem_ok m -> wf_ip a ->
  (if must_refuse ms a then negb (negb (ip_refused m a)) else true) &&
  (if must_allow ms a then negb (ip_refused m a) else true) = true.
Proof.
  intros ms m a HR Hok Ha. apply andb_true_iff. split.
  - destruct (must_refuse ms a) eqn:E; [|reflexivity]. rewrite negb_involutive.
    eapply must_refuse_sound; eassumption.
  - destruct (must_allow ms a) eqn:E; [|reflexivity]. apply negb_true_iff.
    eapply must_allow_sound; eassumption.
Qed.

Lemma probe_ok_model : forall ms m pr, R ms m -> mem_ok m -> wf_probe pr ->
  probe_ok ms pr (probe_answer m pr) = true.
Proof.
  intros ms m pr HR Hok Hw. destruct pr as [p|[a|]|[a|]|[|] p]; cbn in *.
  - apply peer_answer_ok, HR.
  - apply addr_answer_ok; assumption.
  - reflexivity.
  - apply addr_answer_ok; assumption.
  - reflexivity.
  - apply peer_answer_ok, HR.
  - reflexivity.
Qed.

Lemma probes_ok_model : forall ms m prs i, R ms m -> mem_ok m -> Forall wf_probe prs ->
  probes_ok ms i prs (map (probe_answer m) prs) = None.
Proof.
  intros ms m prs. induction prs as [|pr r IH]; intros i HR Hok Hw; cbn; [reflexivity|].
  inversion Hw; subst. rewrite probe_ok_model by assumption. apply IH; assumption.
Qed.

Lemma existsb_zeqb : forall p l, In p l -> existsb (Z.eqb p) l = true.
Proof. intros p l H. apply existsb_exists. exists p. split; [exact H|apply Z.eqb_refl]. Qed.

Lemma fst_not_U : forall s : status, fst s = true -> negb (is_U s) = true.
Proof. intros [b u] H. cbn in *. subst. reflexivity. Qed.

Lemma peers_ok_model : forall ms m, R ms m -> peers_ok ms (list_peers m) = true.
Proof.
  intros ms m (_ & R1 & R2). unfold peers_ok, list_peers. apply andb_true_iff. split.
  - apply forallb_forall. intros [id s] Hin. cbn. destruct id as [p| |]; [|reflexivity|reflexivity].
    destruct (is_B s) eqn:EB; [|reflexivity]. cbn. apply existsb_zeqb. apply (R1 _ _ Hin EB).
  - apply forallb_forall. intros p Hp. apply fst_not_U. apply (R2 (IdPeer p)). exact Hp.
Qed.

Lemma id_of_akey_akey_of : forall f v, id_of_akey (akey_of f v) = IdAddr f v.
Proof. intros [|]; reflexivity. Qed.

Lemma rid_eqb_refl : forall id, rid_eqb id id = true.
Proof. intros. apply rid_eqb_spec. reflexivity. Qed.

Lemma addrs_ok_model : forall ms m, R ms m -> mem_ok m -> addrs_ok ms (list_addrs m) = true.
Proof.
  intros ms m (_ & R1 & R2) [Wa _]. unfold addrs_ok, list_addrs. apply andb_true_iff. split.
  - apply forallb_forall. intros [id s] Hin. cbn. destruct id as [|f v|]; [reflexivity| |reflexivity].
    destruct (is_B s) eqn:EB; [|reflexivity]. cbn. pose proof (R1 _ _ Hin EB) as Hm. cbn in Hm.
    apply existsb_exists. exists (ip_of_akey (akey_of f v)). split; [apply in_map, Hm|].
    rewrite addr_id_of_akey by (apply Wa, Hm). rewrite id_of_akey_akey_of. apply rid_eqb_refl.
  - apply forallb_forall. intros a Ha. apply in_map_iff in Ha. destruct Ha as [k [<- Hk]].
    apply fst_not_U. rewrite addr_id_of_akey by (apply Wa, Hk). apply R2. apply model_has_akey, Hk.
Qed.

Lemma subnets_ok_model : forall ms m, R ms m -> mem_ok m -> subnets_ok ms (list_subnets m) = true.
Proof.
  intros ms m (_ & R1 & R2) [_ Ws]. unfold subnets_ok, list_subnets. apply andb_true_iff. split.
  - apply forallb_forall. intros [id s] Hin. cbn [fst snd]. destruct id as [| |f nn len]; [reflexivity|reflexivity|].
    destruct (is_B s) eqn:EB; [|reflexivity]. cbn [negb orb]. pose proof (R1 _ _ Hin EB) as Hm. cbn in Hm.
    destruct Hm as [s0 Hs]. apply existsb_exists. exists s0. split; [apply (in_map snd) in Hs; exact Hs|].
    destruct (Ws _ _ Hs) as (_ & _ & Hd). rewrite Hd, id_of_skey_akey_of. apply rid_eqb_refl.
  - apply forallb_forall. intros s Hs. apply in_map_iff in Hs. destruct Hs as [[k s0] [E Hin]]. cbn in E. subst s0.
    destruct (Ws _ _ Hin) as (_ & _ & Hd). rewrite Hd.
    assert (Hm : model_has m (id_of_skey k)) by (apply model_has_skey; eauto).
    apply R2 in Hm. destruct (st_of_cases ms (id_of_skey k)) as [Hi|[Hd' _]]; [|rewrite Hd' in Hm; discriminate].
    apply existsb_exists. eexists. split; [exact Hi|]. cbn [fst snd]. rewrite rid_eqb_refl, Hm. reflexivity.
Qed.

(* ---- the running gater and a gater reopened on the same datastore ---------------- *)
Lemma agree_mem_ok : forall d m, agree d m -> mem_ok m.
Proof. intros d m (_ & _ & _ & Wa & Ws). split; assumption. Qed.

Lemma first_diff_b_refl : forall l i, first_diff_b i l l = None.
Proof. induction l as [|x r IH]; intros i; cbn [first_diff_b]; [reflexivity|]. rewrite eqb_reflx. apply IH. Qed.

Lemma peer_blocked_ext : forall m1 m2 p, (forall id, model_has m1 id <-> model_has m2 id) ->
  peer_blocked m1 p = peer_blocked m2 p.
Proof.
  intros m1 m2 p H. apply eq_true_iff_eq. unfold peer_blocked. rewrite !(s_mem_In _ zeqb_spec). apply (H (IdPeer p)).
Qed.

Lemma ip_refused_ext : forall m1 m2 a, (forall id, model_has m1 id <-> model_has m2 id) ->
  mem_ok m1 -> mem_ok m2 -> wf_ip a -> ip_refused m1 a = ip_refused m2 a.
Proof.
  intros m1 m2 a H O1 O2 Ha. apply eq_true_iff_eq. rewrite !refused_iff by assumption.
  split; intros [id [Hm Hr]]; exists id; (split; [apply H, Hm|exact Hr]).
Qed.

(* same enforced rules => same answer to every Intercept* callback *)
Lemma probe_answer_ext : forall m1 m2 pr, (forall id, model_has m1 id <-> model_has m2 id) ->
  mem_ok m1 -> mem_ok m2 -> wf_probe pr -> probe_answer m1 pr = probe_answer m2 pr.
Proof.
  intros m1 m2 pr H O1 O2 Hw.
  destruct pr as [p|[a|]|[a|]|[|] p];
    cbn [probe_answer intercept_peer_dial intercept_addr_dial intercept_accept intercept_secured wf_probe] in *;
    try reflexivity.
  - unfold intercept_peer_dial. rewrite (peer_blocked_ext m1 m2 p H). reflexivity.
  - rewrite (ip_refused_ext m1 m2 a H O1 O2 Hw). reflexivity.
  - rewrite (ip_refused_ext m1 m2 a H O1 O2 Hw). reflexivity.
  - rewrite (peer_blocked_ext m1 m2 p H). reflexivity.
Qed.

Lemma incl_peers : forall m1 m2, (forall id, model_has m1 id -> model_has m2 id) ->
  incl_b Z.eqb (list_peers m1) (list_peers m2) = true.
Proof.
  intros m1 m2 H. unfold incl_b, list_peers. apply forallb_forall. intros p Hp.
  apply existsb_zeqb. apply (H (IdPeer p)), Hp.
Qed.

Lemma addr_same_refl : forall a, addr_same a a = true.
Proof. intros a. unfold addr_same. destruct (norm_ip a). rewrite eqb_reflx, N.eqb_refl. reflexivity. Qed.

Lemma incl_addrs : forall m1 m2, (forall id, model_has m1 id -> model_has m2 id) ->
  incl_b addr_same (list_addrs m1) (list_addrs m2) = true.
Proof.
  intros m1 m2 H. unfold incl_b, list_addrs. apply forallb_forall. intros a Ha.
  apply in_map_iff in Ha. destruct Ha as [k [<- Hk]].
  apply existsb_exists. exists (ip_of_akey k). split; [|apply addr_same_refl].
  apply in_map. apply model_has_akey, H, model_has_akey, Hk.
Qed.

Lemma incl_subnets : forall m1 m2, (forall id, model_has m1 id -> model_has m2 id) ->
  mem_ok m1 -> mem_ok m2 -> incl_b subnet_same (list_subnets m1) (list_subnets m2) = true.
Proof.
  intros m1 m2 H [_ W1] [_ W2]. unfold incl_b, list_subnets. apply forallb_forall. intros s Hs.
  apply in_map_iff in Hs. destruct Hs as [[k s0] [E Hin]]. cbn in E. subst s0.
  assert (Hm : model_has m2 (id_of_skey k)) by (apply H, model_has_skey; eauto).
  apply model_has_skey in Hm. destruct Hm as [s' Hs'].
  apply existsb_exists. exists s'. split; [apply (in_map snd) in Hs'; exact Hs'|].
  unfold subnet_same. destruct (W1 _ _ Hin) as (_ & _ & D1). destruct (W2 _ _ Hs') as (_ & _ & D2).
  rewrite D1, D2. apply rid_eqb_refl.
Qed.

(* in every state that satisfies the invariant — after a call that returned nil,
   after one that returned the datastore's error, after a restart — a gater
   opened on the datastore answers and lists exactly what the running one does *)
Lemma reopened_same : forall st, Inv st ->
  let re := load_rules (g_ds st) in
  (forall id, model_has (g_mem st) id <-> model_has re id) /\ mem_ok (g_mem st) /\ mem_ok re.
Proof.
  intros st [Hd Ha] re. pose proof (agree_load (g_ds st) Hd) as Hl. split; [|split].
  - intros id. apply (agree_same (g_ds st)); assumption.
  - eapply agree_mem_ok, Ha.
  - eapply agree_mem_ok, Hl.
Qed.

Lemma reopen_check_model : forall prs e st, Inv st -> Forall wf_probe prs ->
  reopen_check (model_obs prs e st) = [].
Proof.
  intros prs e st Hi Hw. destruct (reopened_same st Hi) as (H & O1 & O2).
  unfold reopen_check, model_obs. cbn [o_ans o_rans o_peers o_rpeers o_addrs o_raddrs o_subnets o_rsubnets].
  assert (E : map (probe_answer (load_rules (g_ds st))) prs = map (probe_answer (g_mem st)) prs).
  { apply map_ext_in. intros pr Hp. rewrite Forall_forall in Hw. symmetry. apply probe_answer_ext; auto. }
  rewrite E, first_diff_b_refl. unfold same_rules.
  rewrite !incl_peers, !incl_addrs, !incl_subnets by (try assumption; intros id; apply H).
  reflexivity.
Qed.

Lemma obs_check_model : forall ms prs e st, R ms (g_mem st) -> Inv st -> Forall wf_probe prs ->
  obs_check ms prs (model_obs prs e st) = [].
Proof.
  intros ms prs e st HR Hi Hw. pose proof (Inv_mem_ok st Hi) as Hok.
  pose proof (reopen_check_model prs e st Hi Hw) as Hre.
  unfold obs_check. unfold model_obs in *. cbn [o_ans o_peers o_addrs o_subnets].
  rewrite probes_ok_model by assumption.
  rewrite peers_ok_model, addrs_ok_model, subnets_ok_model by assumption. cbn [negb]. exact Hre.
Qed.

(* THE theorem: for every history of calls, failed writes, process stops at both
   points and restarts, and every probe set, the property monitor (a subnet rule
   is identified by the set of its addresses; the running gater is compared with
   a reopened one after every event) accepts the model's trace *)
Lemma monitor_model : forall prs h st ms i,
  Forall wf_probe prs -> Forall wf_event h -> Inv st -> R ms (g_mem st) ->
  monitor_trace prs ms i (model_trace prs st h) = [].
Proof.
  intros prs h. induction h as [|e r IH]; intros st ms i Hp Hw Hi HR; cbn [model_trace monitor_trace]; [reflexivity|].
  inversion Hw as [|? ? He Hr]; subst.
  destruct (R_step st e ms He Hi HR) as [ms' [E HR']].
  assert (Eres : o_res (model_obs prs e (step st e)) = model_res e) by reflexivity.
  rewrite Eres, E.
  pose proof (Inv_step st e He Hi) as Hi'.
  rewrite obs_check_model by assumption.
  apply IH; assumption.
Qed.

(* ---- resolver cases ------------------------------------------------------------------ *)
(* the monitor's knowledge after a whole history of calls stays coupled to the model *)
Lemma R_run : forall h st ms, Forall wf_event h -> Inv st -> R ms (g_mem st) ->
  exists ms', mon_calls ms h = Some ms' /\ R ms' (g_mem (run st h)).
Proof.
  induction h as [|e r IH]; intros st ms Hw Hi HR.
  - exists ms. split; [reflexivity|exact HR].
  - inversion Hw as [|? ? He Hr]; subst. destruct (R_step st e ms He Hi HR) as [ms1 [E HR1]].
    cbn [mon_calls]. rewrite E. change (run st (e :: r)) with (run (step st e) r).
    apply IH; [assumption|apply Inv_step; assumption|exact HR1].
Qed.

Definition wf_kaddr (k : kaddr) : Prop :=
  match k with
  | KIp a => wf_ip a
  | KName (Some l) => Forall wf_ip l
  | KName None => True
  end.

Lemma resolve_wf : forall l, Forall wf_kaddr l -> Forall wf_ip (resolve_addrs l).
Proof.
  induction l as [|k r IH]; intros H; cbn [resolve_addrs flat_map]; [constructor|].
  inversion H as [|? ? Hk Hr]; subst. apply Forall_app. split; [|apply IH; assumption].
  destruct k as [a|[l0|]]; cbn in *; [constructor; [assumption|constructor]|assumption|constructor].
Qed.

(* an address the model hands to a transport was let through by InterceptAddrDial,
   so the monitor — which only knows the calls and their results — cannot hold
   it for certainly blocked *)
Lemma res_scan_addrs : forall ms m addrs i, R ms m -> mem_ok m -> Forall wf_ip addrs ->
  res_scan ms false i (rdial_addrs m addrs) = [].
Proof.
  intros ms m addrs. induction addrs as [|a r IH]; intros i HR Hok Hw; cbn [rdial_addrs]; [reflexivity|].
  inversion Hw as [|? ? Ha Hr]; subst. cbn [res_scan].
  destruct (intercept_addr_dial m (Some a)) eqn:E; cbn [app res_scan].
  - assert (Hn : must_refuse ms a = false).
    { destruct (must_refuse ms a) eqn:Em; [|reflexivity].
      apply (must_refuse_sound ms m a HR Hok Ha) in Em. cbn in E. rewrite Em in E. discriminate. }
    cbn [addr_must_refuse]. rewrite Hn. apply IH; assumption.
  - apply IH; assumption.
Qed.

Lemma monitor_res_model : forall h p l, Forall wf_event h -> Forall wf_kaddr l ->
  monitor_res (mkRcase h p l (rdial (g_mem (run init_state h)) p l)) = [].
Proof.
  intros h p l Hw Hl. unfold monitor_res. cbn [rc_calls rc_peer rc_evs].
  destruct (R_run h init_state [] Hw Inv_init R_nil) as [ms [E HR]]. rewrite E.
  assert (Hok : mem_ok (g_mem (run init_state h))) by (apply Inv_mem_ok, Inv_run; [exact Hw|apply Inv_init]).
  unfold rdial. destruct (is_B (st_of ms (IdPeer p))) eqn:EB.
  - assert (Hb : peer_blocked (g_mem (run init_state h)) p = true).
    { destruct HR as (_ & R1 & _).
      destruct (st_of_cases ms (IdPeer p)) as [Hin|[Hd _]]; [|rewrite Hd in EB; discriminate].
      apply (s_mem_In _ zeqb_spec). apply (R1 _ _ Hin EB). }
    unfold intercept_peer_dial. rewrite Hb. reflexivity.
  - cbn [res_scan]. destruct (intercept_peer_dial (g_mem (run init_state h)) p); [|reflexivity].
    rewrite res_scan_addrs; [reflexivity|exact HR|exact Hok|apply resolve_wf, Hl].
Qed.

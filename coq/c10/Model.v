(* C10 — connection gater.  Executable model transcribed from
   /repo/p2p/net/conngater/conngater.go, the parts of Go's net package it
   relies on (IP.To4, IP.String as a map key, IPNet.Contains /
   networkNumberAndMask, IPNet.String as a map key, ParseCIDR on reload) and
   the admission pipelines of the swarm / upgrader / QUIC-family listeners.
   No proofs in this file. *)
From Coq Require Import List NArith ZArith Bool.
Import ListNotations.
Local Open Scope N_scope.

(* ---- IP addresses ------------------------------------------------------ *)
(* net.IP is a byte slice of length 4 or 16; the value is the big-endian
   number.  Other lengths are outside the model (the harness never builds
   them). *)
Inductive ip := IP4 (v : N) | IP16 (v : N).

Definition wf_ipb (a : ip) : bool :=
  match a with IP4 v => v <? N.shiftl 1 32 | IP16 v => v <? N.shiftl 1 128 end.

(* net.IP.To4: a 4-byte address is returned as is; a 16-byte address whose
   bytes 0..9 are zero and bytes 10,11 are 0xff (::ffff:a.b.c.d) yields its
   last four bytes *)
Definition to4 (a : ip) : option N :=
  match a with
  | IP4 v => Some v
  | IP16 v => if N.shiftr v 32 =? 65535 then Some (N.land v (N.ones 32)) else None
  end.

(* the string net.IP.String() prints, as far as map keys are concerned:
   dotted quad when To4 succeeds, IPv6 text otherwise.  Two keys are the same
   string iff they are equal here (netip.Addr.String is injective per
   family; modelled, exercised by the correspondence). *)
Inductive akey := K4 (v : N) | K6 (v : N).

Definition akey_eqb (a b : akey) : bool :=
  match a, b with
  | K4 x, K4 y => x =? y
  | K6 x, K6 y => x =? y
  | _, _ => false
  end.

Definition ipkey (a : ip) : akey :=
  match to4 a with
  | Some v => K4 v
  | None => match a with IP16 v => K6 v | IP4 v => K4 v end
  end.

(* net.ParseIP(key): always the 16-byte form *)
Definition ip_of_akey (k : akey) : ip :=
  match k with
  | K4 v => IP16 (N.lor (N.shiftl 65535 32) v)
  | K6 v => IP16 v
  end.

(* ---- subnets ----------------------------------------------------------- *)
(* net.IPNet{IP, Mask} with a CIDR mask: Mask has 4 or 16 bytes ([s_m16]) and
   [s_ones] leading one bits *)
Record snet := mkSnet { s_ip : ip; s_m16 : bool; s_ones : N }.

Definition mask_bits (s : snet) : N := if s_m16 s then 128 else 32.

Definition wf_snetb (s : snet) : bool := wf_ipb (s_ip s) && (s_ones s <=? mask_bits s).

(* net.CIDRMask(ones, bits) as a number *)
Definition cidr_mask (bits ones : N) : N := N.shiftl (N.ones ones) (bits - ones).

(* networkNumberAndMask: (network is 4 bytes?, network number, mask).
   To4 normalisation of the network; a 16-byte mask over a 4-byte network
   uses its last four bytes (m[12:]); a 4-byte mask over a 16-byte network is
   rejected (nil, nil). *)
Definition nn_and_mask (s : snet) : option (bool * N * N) :=
  let m := cidr_mask (mask_bits s) (s_ones s) in
  match to4 (s_ip s) with
  | Some v => Some (true, v, if s_m16 s then N.land m (N.ones 32) else m)
  | None =>
      match s_ip s with
      | IP16 v => if s_m16 s then Some (false, v, m) else None
      | IP4 _ => None
      end
  end.

(* net.IPNet.Contains *)
Definition contains (s : snet) (a : ip) : bool :=
  match nn_and_mask s with
  | None => false
  | Some (is4, nn, m) =>
      match to4 a with
      | Some x => is4 && (N.land nn m =? N.land x m)
      | None =>
          match a with
          | IP16 x => negb is4 && (N.land nn m =? N.land x m)
          | IP4 _ => false
          end
      end
  end.

(* the string net.IPNet.String() prints: nn.String() "/" simpleMaskLength(m),
   where nn is the To4-normalised but NOT masked network number *)
Definition skey := (akey * N)%type.

Definition skey_eqb (a b : skey) : bool := akey_eqb (fst a) (fst b) && (snd a =? snd b).

Definition eff_ones (s : snet) : N :=
  match to4 (s_ip s) with
  | Some _ => if s_m16 s then s_ones s - 96 else s_ones s
  | None => s_ones s
  end.

Definition snet_key (s : snet) : option skey :=
  match nn_and_mask s with
  | None => None                      (* "<nil>" *)
  | Some (true, nn, _) => Some (K4 nn, eff_ones s)
  | Some (false, nn, _) => Some (K6 nn, eff_ones s)
  end.

(* net.ParseCIDR(key): the address family is the textual one, the mask has
   the natural length, the IP is masked *)
Definition parse_cidr (k : skey) : snet :=
  match k with
  | (K4 v, n) => mkSnet (IP4 (N.land v (cidr_mask 32 n))) false n
  | (K6 v, n) => mkSnet (IP16 (N.land v (cidr_mask 128 n))) true n
  end.

(* ---- finite maps / sets as lists --------------------------------------- *)
Section Assoc.
  Context {K V : Type} (eqb : K -> K -> bool).
  Fixpoint a_find (k : K) (m : list (K * V)) : option V :=
    match m with
    | [] => None
    | (k', v) :: r => if eqb k k' then Some v else a_find k r
    end.
  Fixpoint a_del (k : K) (m : list (K * V)) : list (K * V) :=
    match m with
    | [] => []
    | (k', v) :: r => if eqb k k' then a_del k r else (k', v) :: a_del k r
    end.
  Definition a_put (k : K) (v : V) (m : list (K * V)) : list (K * V) := (k, v) :: a_del k m.
End Assoc.

Section SetL.
  Context {K : Type} (eqb : K -> K -> bool).
  Fixpoint s_mem (k : K) (s : list K) : bool :=
    match s with [] => false | x :: r => eqb k x || s_mem k r end.
  Fixpoint s_del (k : K) (s : list K) : list K :=
    match s with [] => [] | x :: r => if eqb k x then s_del k r else x :: s_del k r end.
  Definition s_add (k : K) (s : list K) : list K := k :: s_del k s.
End SetL.

(* ---- gater state -------------------------------------------------------- *)
(* in-memory maps: blockedPeers, blockedAddrs (keyed by ip.String()),
   blockedSubnets (keyed by ipnet.String(), value the *IPNet) *)
Record rules := mkRules {
  r_peers : list Z;
  r_addrs : list akey;
  r_subnets : list (skey * snet)
}.

(* the datastore under /libp2p/net/conngater:
     /peer/<p.String()>   -> []byte(p)
     /addr/<ip.String()>  -> []byte(ip)        (the form it was given in)
     /subnet/<n.String()> -> []byte(n.String()) *)
Record dstore := mkDs {
  d_peers : list (Z * Z);
  d_addrs : list (akey * ip);
  d_subnets : list (skey * skey)
}.

Definition empty_rules := mkRules [] [] [].
Definition empty_ds := mkDs [] [] [].

Record gstate := mkG { g_ds : dstore; g_mem : rules }.

Inductive rule := RPeer (p : Z) | RAddr (a : ip) | RSubnet (s : snet).
Inductive op := Block (r : rule) | Unblock (r : rule).

(* the text IPNet.String() prints for a subnet; a subnet for which
   String() prints "<nil>" is outside the model (decoded as malformed) *)
Definition skey_of (s : snet) : skey :=
  match snet_key s with Some k => k | None => (K4 0, 0) end.

(* canonicalSubnet (conngater.go): n = ParseCIDR(ipnet.String()); the rule is
   filed under n.String() — host bits cleared, natural mask length — and the
   in-memory value is n, exactly what loadRules rebuilds after a restart *)
Definition canon_key (k : skey) : skey := skey_of (parse_cidr k).
Definition ckey (s : snet) : skey := canon_key (skey_of s).
Definition cnet (s : snet) : snet := parse_cidr (skey_of s).

(* first half of every Block*/Unblock*: the datastore write *)
Definition ds_write (o : op) (d : dstore) : dstore :=
  match o with
  | Block (RPeer p) => mkDs (a_put Z.eqb p p (d_peers d)) (d_addrs d) (d_subnets d)
  | Unblock (RPeer p) => mkDs (a_del Z.eqb p (d_peers d)) (d_addrs d) (d_subnets d)
  | Block (RAddr a) => mkDs (d_peers d) (a_put akey_eqb (ipkey a) a (d_addrs d)) (d_subnets d)
  | Unblock (RAddr a) => mkDs (d_peers d) (a_del akey_eqb (ipkey a) (d_addrs d)) (d_subnets d)
  | Block (RSubnet s) =>
      mkDs (d_peers d) (d_addrs d) (a_put skey_eqb (ckey s) (ckey s) (d_subnets d))
  | Unblock (RSubnet s) =>
      mkDs (d_peers d) (d_addrs d) (a_del skey_eqb (ckey s) (d_subnets d))
  end.

(* second half: the in-memory update under the lock *)
Definition mem_update (o : op) (m : rules) : rules :=
  match o with
  | Block (RPeer p) => mkRules (s_add Z.eqb p (r_peers m)) (r_addrs m) (r_subnets m)
  | Unblock (RPeer p) => mkRules (s_del Z.eqb p (r_peers m)) (r_addrs m) (r_subnets m)
  | Block (RAddr a) => mkRules (r_peers m) (s_add akey_eqb (ipkey a) (r_addrs m)) (r_subnets m)
  | Unblock (RAddr a) => mkRules (r_peers m) (s_del akey_eqb (ipkey a) (r_addrs m)) (r_subnets m)
  | Block (RSubnet s) =>
      mkRules (r_peers m) (r_addrs m) (a_put skey_eqb (ckey s) (cnet s) (r_subnets m))
  | Unblock (RSubnet s) =>
      mkRules (r_peers m) (r_addrs m) (a_del skey_eqb (ckey s) (r_subnets m))
  end.

(* loadRules: three prefix queries; peers from the raw value, addresses
   re-keyed by net.IP(value).String(), subnets keyed by the stored string
   and re-parsed with ParseCIDR *)
Definition load_rules (d : dstore) : rules :=
  mkRules
    (fold_right (fun kv acc => s_add Z.eqb (snd kv) acc) [] (d_peers d))
    (fold_right (fun kv acc => s_add akey_eqb (ipkey (snd kv)) acc) [] (d_addrs d))
    (fold_right (fun kv acc => a_put skey_eqb (snd kv) (parse_cidr (snd kv)) acc) [] (d_subnets d)).

Definition init_state : gstate := mkG empty_ds empty_rules.

(* what can happen around one call:
     EOp          both halves run, the call returns nil
     EFail        the datastore write fails: the call returns the error,
                  nothing is written, memory untouched
     ECrashAfter  the datastore write is done, the process stops before the
                  in-memory update; a new gater is opened on the datastore
     ECrashBefore the process stops before the datastore write; reopen
     EReopen      clean restart between calls *)
Inductive event :=
  | EOp (o : op) | EFail (o : op) | ECrashAfter (o : op) | ECrashBefore (o : op) | EReopen.

Definition step (st : gstate) (e : event) : gstate :=
  match e with
  | EOp o => mkG (ds_write o (g_ds st)) (mem_update o (g_mem st))
  | EFail _ => st
  | ECrashAfter o => let d := ds_write o (g_ds st) in mkG d (load_rules d)
  | ECrashBefore _ => mkG (g_ds st) (load_rules (g_ds st))
  | EReopen => mkG (g_ds st) (load_rules (g_ds st))
  end.

Definition run (st : gstate) (h : list event) : gstate := fold_left step h st.

(* ---- the Intercept* callbacks ------------------------------------------ *)
(* a multiaddr is abstracted to what manet.ToIP returns for it: the IP of a
   leading /ip4 or /ip6 component, or nothing (dns*, unix, p2p-circuit
   without a leading IP, ...) *)
(* manet.ToIP over the components of a multiaddr: /ip6zone is skipped, the
   first /ip4 or /ip6 component is the answer, anything else in front means
   "not an IP address".  What follows the IP (tcp, udp/quic-v1, ws, a relay's
   /p2p/<id>/p2p-circuit, ...) is never looked at. *)
Inductive comp := CIp4 (v : N) | CIp6 (v : N) | CZone | COther.

Fixpoint to_ip (a : list comp) : option ip :=
  match a with
  | [] => None
  | CZone :: r => to_ip r
  | CIp4 v :: _ => Some (IP4 v)
  | CIp6 v :: _ => Some (IP16 v)
  | COther :: _ => None
  end.

Definition peer_blocked (m : rules) (p : Z) : bool := s_mem Z.eqb p (r_peers m).

Definition ip_refused (m : rules) (a : ip) : bool :=
  s_mem akey_eqb (ipkey a) (r_addrs m) ||
  existsb (fun ks : skey * snet => contains (snd ks) a) (r_subnets m).

Definition intercept_peer_dial (m : rules) (p : Z) : bool := negb (peer_blocked m p).

Definition intercept_addr_dial (m : rules) (a : option ip) : bool :=
  match a with None => true | Some x => negb (ip_refused m x) end.

Definition intercept_accept (m : rules) (a : option ip) : bool :=
  match a with None => true | Some x => negb (ip_refused m x) end.

(* dir: true = inbound *)
Definition intercept_secured (m : rules) (inbound : bool) (p : Z) : bool :=
  if inbound then negb (peer_blocked m p) else true.

Definition intercept_upgraded (m : rules) : bool := true.

Definition list_peers (m : rules) : list Z := r_peers m.
Definition list_addrs (m : rules) : list ip := map ip_of_akey (r_addrs m).
Definition list_subnets (m : rules) : list snet := map snd (r_subnets m).

(* ---- admission pipelines ------------------------------------------------ *)
(* The gating calls a connection meets, in order.  A transport family is
   described by the list of gate sites it actually contains (regenerated from
   the source, gen/Consts_c10.v); the pipeline consults a gate only if the
   family has that site. *)
Inductive gate := GPeerDial | GAddrDial | GAccept | GSecuredIn | GSecuredOut | GUpgraded.

Definition gate_eqb (a b : gate) : bool :=
  match a, b with
  | GPeerDial, GPeerDial | GAddrDial, GAddrDial | GAccept, GAccept
  | GSecuredIn, GSecuredIn | GSecuredOut, GSecuredOut | GUpgraded, GUpgraded => true
  | _, _ => false
  end.

Definition has_gate (sites : list gate) (g : gate) : bool := existsb (gate_eqb g) sites.

(* pipeline events, as the recording gater / counting transport of the
   harness see them *)
Inductive pev :=
  | PvPeerDial (p : Z) (allow : bool)
  | PvAddrDial (idx : nat) (allow : bool)       (* idx into the address list *)
  | PvTransportDial (idx : nat)
  | PvAccept (allow : bool)
  | PvHandshake
  | PvSecured (inbound : bool) (p : Z) (allow : bool)
  | PvUpgraded (allow : bool)
  | PvConnected
  | PvClosed.

(* after a transport dial (outbound) or the handshake (inbound) *)
Definition finish (sites : list gate) (m : rules) (inbound : bool) (p : Z) : list pev :=
  let g := if inbound then GSecuredIn else GSecuredOut in
  let sec := if has_gate sites g then intercept_secured m inbound p else true in
  (if has_gate sites g then [PvSecured inbound p sec] else []) ++
  (if sec then
     let up := if has_gate sites GUpgraded then intercept_upgraded m else true in
     (if has_gate sites GUpgraded then [PvUpgraded up] else []) ++
     (if up then [PvConnected] else [PvClosed])
   else [PvClosed]).

(* outbound: dialPeer -> filterKnownUndialables -> transport dial of every
   remaining address (the model lets every dial succeed: the worst case for
   the property) *)
Fixpoint dial_addrs (sites : list gate) (m : rules) (p : Z) (i : nat) (addrs : list (option ip)) : list pev :=
  match addrs with
  | [] => []
  | a :: r =>
      let ok := if has_gate sites GAddrDial then intercept_addr_dial m a else true in
      (if has_gate sites GAddrDial then [PvAddrDial i ok] else []) ++
      (if ok then PvTransportDial i :: finish sites m false p else []) ++
      dial_addrs sites m p (S i) r
  end.

Definition outbound (sites : list gate) (m : rules) (p : Z) (addrs : list (option ip)) : list pev :=
  let ok := if has_gate sites GPeerDial then intercept_peer_dial m p else true in
  (if has_gate sites GPeerDial then [PvPeerDial p ok] else []) ++
  (if ok then dial_addrs sites m p 0 addrs else []).

(* the options a dial context can carry (core/network/context.go).  All of
   them go through the same gates: WithForceDirectDial only removes relayed
   addresses AFTER filterKnownUndialables (addrsForDial) and skips the
   backoff; WithSimultaneousConnect changes the role inside the transport;
   WithAllowLimitedConn only widens which existing connection is acceptable;
   WithNoDial (NewStream) never dials. *)
Inductive dialopt := OPlain | OForceDirect | OSimConnect | OAllowLimited | ONoDial.

Definition outbound_opt (sites : list gate) (o : dialopt) (m : rules) (p : Z) (addrs : list (option ip)) : list pev :=
  match o with
  | ONoDial => []
  | _ => outbound sites m p addrs
  end.

(* inbound: accept -> handshake -> secured -> upgraded *)
Definition inbound (sites : list gate) (m : rules) (p : Z) (a : option ip) : list pev :=
  let ok := if has_gate sites GAccept then intercept_accept m a else true in
  (if has_gate sites GAccept then [PvAccept ok] else []) ++
  (if ok then PvHandshake :: finish sites m true p else [PvClosed]).

(* the sites of the complete stack: swarm + one transport family *)
Definition full_sites : list gate :=
  [GPeerDial; GAddrDial; GAccept; GSecuredIn; GSecuredOut; GUpgraded].

(* ---- addresses known by name --------------------------------------------- *)
(* addrsForDial -> resolveAddrs -> chainResolvers (swarm_dial.go).  An address
   the peerstore lists for the remote is an IP address, or a /dns4 | /dns6 |
   /dns name together with what the swarm's multiaddr resolver answers for it:
   an error ([None]) or a list of IP addresses.  chainResolvers DROPS an
   address whose resolution fails and replaces a resolved name by one IP
   address per answer, so that only IP addresses reach filterKnownUndialables
   (InterceptAddrDial) and the transports. *)
Inductive kaddr := KIp (a : ip) | KName (res : option (list ip)).

Definition resolve_one (k : kaddr) : list ip :=
  match k with
  | KIp a => [a]
  | KName None => []
  | KName (Some l) => l
  end.

Definition resolve_addrs (l : list kaddr) : list ip := flat_map resolve_one l.

(* what the recording gater and the recording transport of the harness see:
   the gate answers, the address handed to a transport ([None]: an address
   without IP component, i.e. a name) and the IP address the transport then
   opens a connection to (a transport handed a name looks it up itself) *)
Inductive rev :=
  | RvPeerDial (allow : bool)
  | RvAddrDial (a : option ip) (allow : bool)
  | RvTptDial (a : option ip)
  | RvTptConn (a : ip).

Fixpoint rdial_addrs (m : rules) (addrs : list ip) : list rev :=
  match addrs with
  | [] => []
  | a :: r =>
      let ok := intercept_addr_dial m (Some a) in
      RvAddrDial (Some a) ok ::
      (if ok then [RvTptDial (Some a); RvTptConn a] else []) ++ rdial_addrs m r
  end.

Definition rdial (m : rules) (p : Z) (l : list kaddr) : list rev :=
  let ok := intercept_peer_dial m p in
  RvPeerDial ok :: (if ok then rdial_addrs m (resolve_addrs l) else []).

(* C10 — property theorems only.  Each is closed by a lemma from Proofs*.v and
   followed by Print Assumptions. *)
From Coq Require Import List NArith ZArith Bool.
From Verif Require Import lib.Wire c10.Model c10.Spec c10.Proofs_ip c10.Proofs c10.Proofs_mon c10.Proofs_pipe gen.Consts_c10.
Import ListNotations.

(* ---- textual forms of an address --------------------------------------------- *)
(* the 16-byte IPv4-mapped form ::ffff:a.b.c.d and the 4-byte form a.b.c.d are
   filed under the same key by net.IP.String() *)
Theorem c10_ip_forms_same_key : forall v, (v < 2 ^ 32)%N -> ipkey (IP16 (mapped v)) = ipkey (IP4 v).
Proof. intros v H. unfold ipkey. rewrite to4_mapped by exact H. reflexivity. Qed.
Print Assumptions c10_ip_forms_same_key.

(* ... and whatever the rules are, all forms of an address get the same answer
   from InterceptAddrDial / InterceptAccept (address set and every subnet) *)
Theorem c10_forms_same_answer : forall m a b, norm_ip a = norm_ip b ->
  ipkey a = ipkey b /\ ip_refused m a = ip_refused m b /\ (forall s, contains s a = contains s b).
Proof.
  intros m a b H. split; [rewrite !ipkey_norm, H; reflexivity|].
  split; [apply ip_refused_norm, H|]. intros s. apply contains_norm, H.
Qed.
Print Assumptions c10_forms_same_answer.

(* net.IPNet.Contains as transcribed (To4 normalisation of both sides, m[12:]
   of a 16-byte mask over a 4-byte network, byte-wise and): the address is in
   the subnet iff it has the family of the network after normalisation and
   agrees with it on the top [len] bits *)
Theorem c10_subnet_contains_spec : forall s a, wf_snet s -> wf_ip a -> snet_key s <> None ->
  (contains s a = true <->
   let '(f, nn) := norm_ip (s_ip s) in
   let '(fa, x) := norm_ip a in
   f = fa /\ (x / 2 ^ (fam_bits f - eff_ones s) = nn / 2 ^ (fam_bits f - eff_ones s))%N).
Proof. exact subnet_contains_spec_l. Qed.
Print Assumptions c10_subnet_contains_spec.

(* the canonical subnet ParseCIDR(ipnet.String()) that BlockSubnet stores (and
   loadRules rebuilds) contains exactly the same addresses as the IPNet given *)
Theorem c10_reparsed_subnet_same : forall s a, wf_snet s -> wf_ip a -> snet_key s <> None ->
  contains (cnet s) a = contains s a.
Proof.
  intros s a Hs Ha Hk. unfold cnet. rewrite parse_cidr_matches by (try assumption; apply skey_of_wf; assumption).
  symmetry. apply contains_matches_key; assumption.
Qed.
Print Assumptions c10_reparsed_subnet_same.

(* ---- persistence ---------------------------------------------------------------- *)
(* after every history, memory and datastore agree: a gater reopened on the
   datastore enforces exactly the rules the running one enforces *)
Theorem c10_memory_agrees_with_datastore : forall h, Forall wf_event h ->
  let st := run init_state h in
  forall id, model_has (load_rules (g_ds st)) id <-> model_has (g_mem st) id.
Proof.
  intros h Hw st id. destruct (Inv_run h init_state Hw Inv_init) as [Hd Ha].
  apply (agree_same (g_ds st)); [apply agree_load, Hd|exact Ha].
Qed.
Print Assumptions c10_memory_agrees_with_datastore.

(* ... in particular after a call that returned the datastore's error (EFail) as
   much as after one that returned nil: at every call boundary a gater opened
   on the datastore gives the same answer to every Intercept* callback and
   lists the same peers, addresses and subnets as the running one — the
   clause the monitor checks on the implementation after every event *)
Theorem c10_reopened_gater_same_answers : forall h, Forall wf_event h ->
  let st := run init_state h in
  let re := load_rules (g_ds st) in
  (forall pr, wf_probe pr -> probe_answer (g_mem st) pr = probe_answer re pr) /\
  same_rules Z.eqb (list_peers (g_mem st)) (list_peers re) = true /\
  same_rules addr_same (list_addrs (g_mem st)) (list_addrs re) = true /\
  same_rules subnet_same (list_subnets (g_mem st)) (list_subnets re) = true.
Proof.
  intros h Hw st re. destruct (reopened_same st (Inv_run h init_state Hw Inv_init)) as (H & O1 & O2). fold re in H, O2.
  split; [intros pr Hp; apply probe_answer_ext; assumption|].
  unfold same_rules. rewrite !incl_peers, !incl_addrs, !incl_subnets by (try assumption; intros id; apply H).
  repeat split.
Qed.
Print Assumptions c10_reopened_gater_same_answers.

(* a call whose datastore write failed changes neither side *)
Theorem c10_failed_call_changes_nothing : forall st o, step st (EFail o) = st.
Proof. reflexivity. Qed.
Print Assumptions c10_failed_call_changes_nothing.

(* every history, every crash point: a call that returned (EOp) decides its own
   rule; a call interrupted after the datastore write (ECrashAfter) is enforced
   as if it had returned, one interrupted before the write, a failed write and
   a restart change nothing; no event changes any other rule *)
Theorem c10_persist_crash_safe : forall h e id, Forall wf_event h -> wf_event e ->
  let st := run init_state h in
  (model_has (g_mem (step st e)) id <->
   match e with
   | EOp o | ECrashAfter o =>
       if rid_eqb id (tid (op_rule o)) then op_block o = true else model_has (g_mem st) id
   | EFail _ | ECrashBefore _ | EReopen => model_has (g_mem st) id
   end).
Proof. exact persist_crash_safe_l. Qed.
Print Assumptions c10_persist_crash_safe.

(* once a call has returned, its rule is enforced (Block) / not enforced
   (Unblock) after any number of later calls on other rules, failed writes,
   process stops at either point and restarts *)
Theorem c10_persist_returned : forall h1 o h2,
  Forall wf_event h1 -> wf_rule (op_rule o) -> Forall wf_event h2 ->
  forallb (fun e => negb (touches (tid (op_rule o)) e)) h2 = true ->
  (model_has (g_mem (run init_state (h1 ++ EOp o :: h2))) (tid (op_rule o)) <-> op_block o = true).
Proof. exact persist_returned. Qed.
Print Assumptions c10_persist_returned.

(* ---- blocked never admitted ------------------------------------------------------ *)
(* for a stack that has every gate, in every reachable state:
   a blocked peer is refused before any transport dial outbound and right
   after the handshake inbound; a blocked address — in every textual form —
   and every address of a blocked subnet is never handed to a transport and is
   closed at accept inbound; nothing is admitted outbound without a transport
   dial — for every option a dial context can carry (plain, WithForceDirectDial,
   WithSimultaneousConnect, WithAllowLimitedConn, WithNoDial) *)
Theorem c10_blocked_never_admitted : forall sites h,
  (forall g, has_gate sites g = true) -> Forall wf_event h ->
  let m := g_mem (run init_state h) in
  (forall p, model_has m (IdPeer p) ->
     (forall o addrs, outbound_opt sites o m p addrs = [PvPeerDial p false] \/ outbound_opt sites o m p addrs = []) /\
     (forall oa, intercept_accept m oa = true ->
        inbound sites m p oa = [PvAccept true; PvHandshake; PvSecured true p false; PvClosed]) /\
     (forall oa, ~ In PvConnected (inbound sites m p oa))) /\
  (forall a b, model_has m (tid (RAddr a)) -> norm_ip b = norm_ip a ->
     (forall o p addrs j, nth_error addrs j = Some (Some b) -> ~ In (PvTransportDial j) (outbound_opt sites o m p addrs)) /\
     (forall p, inbound sites m p (Some b) = [PvAccept false; PvClosed])) /\
  (forall s b, wf_snet s -> snet_key s <> None -> wf_ip b -> model_has m (tid (RSubnet s)) -> contains s b = true ->
     (forall o p addrs j, nth_error addrs j = Some (Some b) -> ~ In (PvTransportDial j) (outbound_opt sites o m p addrs)) /\
     (forall p, inbound sites m p (Some b) = [PvAccept false; PvClosed])) /\
  (forall o p addrs, In PvConnected (outbound_opt sites o m p addrs) ->
     exists k, In (PvTransportDial k) (outbound sites m p addrs)).
Proof. exact blocked_never_admitted_l. Qed.
Print Assumptions c10_blocked_never_admitted.

(* every multiaddr FORM of a blocked address: whatever /ip6zone prefix precedes
   the IP component (a link-local remote /ip6zone/eth0/ip6/fe80::1/tcp/1) and
   whatever follows it (tcp, quic-v1, ws, webtransport, a relay's
   /p2p/<relay>/p2p-circuit), the address the gater decides on is that IP, so
   in every reachable state a multiaddr carrying a blocked address — in either
   byte form — or an address of a blocked subnet is refused by
   InterceptAddrDial and InterceptAccept, is never handed to a transport and
   is closed at accept, under every dial-context option *)
Theorem c10_every_address_form_refused : forall sites h,
  (forall g, has_gate sites g = true) -> Forall wf_event h ->
  let m := g_mem (run init_state h) in
  forall ma b, to_ip ma = Some b ->
  ((exists a, model_has m (tid (RAddr a)) /\ norm_ip b = norm_ip a) \/
   (exists s, wf_snet s /\ snet_key s <> None /\ wf_ip b /\ model_has m (tid (RSubnet s)) /\ contains s b = true)) ->
  intercept_addr_dial m (to_ip ma) = false /\ intercept_accept m (to_ip ma) = false /\
  (forall o p addrs j, nth_error addrs j = Some (to_ip ma) ->
     ~ In (PvTransportDial j) (outbound_opt sites o m p addrs)) /\
  (forall p, inbound sites m p (to_ip ma) = [PvAccept false; PvClosed]).
Proof.
  intros sites h Hg Hw m ma b E Hb.
  destruct (blocked_never_admitted_l sites h Hg Hw) as (_ & HA & HS & _). fold m in HA, HS.
  assert (Hok : mem_ok m) by (apply Inv_mem_ok, Inv_run; [exact Hw|apply Inv_init]).
  assert (Hr : ip_refused m b = true).
  { destruct Hb as [[a [H1 H2]]|[s (H1 & H2 & H3 & H4 & H5)]].
    - eapply enforced_addr_refused; eassumption.
    - eapply enforced_subnet_refused; eassumption. }
  destruct (refused_every_form m ma b E Hr) as [R1 R2]. split; [exact R1|]. split; [exact R2|].
  rewrite E. destruct Hb as [[a [H1 H2]]|[s (H1 & H2 & H3 & H4 & H5)]].
  - destruct (HA a b H1 H2) as [X Y]. split; [exact X|exact Y].
  - destruct (HS s b H1 H2 H3 H4 H5) as [X Y]. split; [exact X|exact Y].
Qed.
Print Assumptions c10_every_address_form_refused.

(* addresses WITHOUT IP component that stand for one: a peer known by
   /dns4 | /dns6 | /dns names.  Whatever the swarm's resolver answers per name
   (an error or any list of addresses), in every reachable state: everything
   InterceptAddrDial is asked about and everything a transport is handed is an
   IP address the resolution produced (a name whose lookup fails is dropped,
   never passed on for the transport to look up itself), a transport is only
   handed — and only connects to — an address that InterceptAddrDial let
   through, and no transport connection is opened to a blocked address or to
   an address of a blocked subnet, in either byte form *)
Theorem c10_names_resolved_before_gating : forall m p l e, In e (rdial m p l) ->
  match e with
  | RvPeerDial allow => allow = intercept_peer_dial m p
  | RvAddrDial oa allow =>
      exists a, oa = Some a /\ In a (resolve_addrs l) /\ allow = negb (ip_refused m a) /\ peer_blocked m p = false
  | RvTptDial oa =>
      exists a, oa = Some a /\ In a (resolve_addrs l) /\ ip_refused m a = false /\ peer_blocked m p = false
  | RvTptConn a => In a (resolve_addrs l) /\ ip_refused m a = false /\ peer_blocked m p = false
  end.
Proof. exact rdial_spec. Qed.
Print Assumptions c10_names_resolved_before_gating.

Theorem c10_resolution_spec : forall l a, In a (resolve_addrs l) <->
  exists k, In k l /\ (k = KIp a \/ exists ans, k = KName (Some ans) /\ In a ans).
Proof. exact resolve_addrs_In. Qed.
Print Assumptions c10_resolution_spec.

Theorem c10_no_transport_connection_to_blocked_ip : forall h p l b, Forall wf_event h ->
  let m := g_mem (run init_state h) in
  ((exists a, model_has m (tid (RAddr a)) /\ norm_ip b = norm_ip a) \/
   (exists s, wf_snet s /\ snet_key s <> None /\ wf_ip b /\ model_has m (tid (RSubnet s)) /\ contains s b = true)) ->
  ~ In (RvTptConn b) (rdial m p l) /\ ~ In (RvTptDial (Some b)) (rdial m p l).
Proof.
  intros h p l b Hw m Hb.
  assert (Hok : mem_ok m) by (apply Inv_mem_ok, Inv_run; [exact Hw|apply Inv_init]).
  assert (Hr : ip_refused m b = true).
  { destruct Hb as [[a [H1 H2]]|[s (H1 & H2 & H3 & H4 & H5)]].
    - eapply enforced_addr_refused; eassumption.
    - eapply enforced_subnet_refused; eassumption. }
  split; intros H; apply rdial_spec in H.
  - destruct H as (_ & H & _). congruence.
  - destruct H as [a (E & _ & H & _)]. inversion E; subst. congruence.
Qed.
Print Assumptions c10_no_transport_connection_to_blocked_ip.

(* the resolver-case monitor that judges the implementation accepts the model's
   events for every call history, every peer and every address list / resolver script *)
Theorem c10_resolver_monitor_accepts_model : forall h p l, Forall wf_event h -> Forall wf_kaddr l ->
  monitor_res (mkRcase h p l (rdial (g_mem (run init_state h)) p l)) = [].
Proof. exact monitor_res_model. Qed.
Print Assumptions c10_resolver_monitor_accepts_model.

(* ToIP finds the IP exactly in the forms: zone components, then the IP, then anything *)
Theorem c10_to_ip_forms : forall a b, to_ip a = Some b ->
  exists zs rest, a = zs ++ (match b with IP4 v => CIp4 v | IP16 v => CIp6 v end) :: rest /\ Forall (fun c => c = CZone) zs.
Proof. exact to_ip_some. Qed.
Print Assumptions c10_to_ip_forms.

(* regenerated obligation: the Intercept* call sites found in the source this
   run.  The swarm (family 0) has InterceptPeerDial, InterceptAddrDial and
   InterceptUpgraded; each transport family — upgrader (TCP, WebSocket) 1,
   QUIC 2, WebTransport 3, WebRTC 4 — has InterceptAccept and
   InterceptSecured for both directions.  Deleting a call site breaks this. *)
Theorem c10_gate_sites_complete :
  forall fam, In fam [1; 2; 3; 4]%Z -> fully_gated c10_gate_sites fam = true.
Proof.
  intros fam H.
  assert (E : forallb (fully_gated c10_gate_sites) [1; 2; 3; 4]%Z = true) by (vm_compute; reflexivity).
  rewrite forallb_forall in E. apply E, H.
Qed.
Print Assumptions c10_gate_sites_complete.

(* regenerated obligation on ORDER: in every listener function that passes an
   inbound connection on — to the accept queue, to an in-flight hole punch, to
   the next stage — the gates that function is responsible for come first in
   the source (code 9 = a statement that passes the connection on).  Moving a
   hand-off in front of the gater check breaks this. *)
Theorem c10_handoff_after_gates : forall fam req seq, In (fam, req, seq) c10_handoff_order ->
  In 9%Z seq /\
  forall pre post, seq = pre ++ 9%Z :: post -> forall g, In g req -> In g pre.
Proof.
  intros fam req seq H.
  assert (E : handoffs_guarded c10_handoff_order = true) by (vm_compute; reflexivity).
  exact (handoffs_guarded_sound _ E fam req seq H).
Qed.
Print Assumptions c10_handoff_after_gates.

(* ... and every listener the pipeline model speaks about is in that list *)
Theorem c10_handoff_functions_present :
  forall fam, In fam [1; 2; 3; 4]%Z -> existsb (fun x : Z * list Z * list Z => Z.eqb (fst (fst x)) fam) c10_handoff_order = true.
Proof.
  intros fam H.
  assert (E : forallb (fun fam => existsb (fun x : Z * list Z * list Z => Z.eqb (fst (fst x)) fam) c10_handoff_order) [1; 2; 3; 4]%Z = true)
    by (vm_compute; reflexivity).
  rewrite forallb_forall in E. apply E, H.
Qed.
Print Assumptions c10_handoff_functions_present.

(* hence the pipeline theorem applies to the gates each transport family
   actually has in the source *)
Theorem c10_every_transport_gated : forall fam g, In fam [1; 2; 3; 4]%Z ->
  has_gate (stack c10_gate_sites fam) g = true.
Proof. intros fam g H. apply fully_gated_has, c10_gate_sites_complete, H. Qed.
Print Assumptions c10_every_transport_gated.

(* ---- subnet rules are identified by the set of their addresses ------------------- *)
(* (since the repair of BlockSubnet/UnblockSubnet: canonicalSubnet) two IPNets
   are filed under the same key iff they denote the same subnet — whatever
   host bits, byte form of the IP or byte length of the mask they were given with *)
Theorem c10_subnet_identity_is_address_set : forall s1 s2,
  wf_snet s1 -> snet_key s1 <> None -> wf_snet s2 -> snet_key s2 <> None ->
  (ckey s1 = ckey s2 <-> denote false s1 = denote false s2).
Proof.
  intros s1 s2 H1 K1 H2 K2. rewrite !denote_ckey by assumption. split.
  - intros ->. reflexivity.
  - intros E. inversion E as [E']. apply id_of_skey_inj, E'.
Qed.
Print Assumptions c10_subnet_identity_is_address_set.

(* ---- the monitor that judges the implementation accepts every model trace -------- *)
(* every history of calls, failed writes, process stops at both points and
   restarts, every probe set, every subnet (canonical or not); the monitor
   identifies a subnet rule by the set of its addresses *)
Theorem c10_monitor_accepts_model : forall prs h,
  Forall wf_probe prs -> Forall wf_event h ->
  monitor_trace prs [] 0 (model_trace prs init_state h) = [].
Proof. intros prs h Hp Hw. apply monitor_model; [assumption|assumption|apply Inv_init|apply R_nil]. Qed.
Print Assumptions c10_monitor_accepts_model.

(* regression (fixed defect a0dca34): BlockSubnet(IPNet{10.1.2.3, /24});
   UnblockSubnet(IPNet{10.1.2.0, /24}) — with and without a restart in between.
   Before the repair the rule was keyed by the text "10.1.2.3/24" and stayed
   enforced although the unblock returned nil. *)
Definition c10_old_witness (restart : bool) : list event :=
  [EOp (Block (RSubnet (mkSnet (IP4 167838211) false 24)))] ++
  (if restart then [EReopen] else []) ++
  [EOp (Unblock (RSubnet (mkSnet (IP4 167838208) false 24)))].

Example old_witness_now_passes : forall restart,
  let m := g_mem (run init_state (c10_old_witness restart)) in
  intercept_addr_dial m (Some (IP4 167838217)) = true /\ list_subnets m = [] /\
  monitor_trace [PAddrDial (Some (IP4 167838217))] [] 0
    (model_trace [PAddrDial (Some (IP4 167838217))] init_state (c10_old_witness restart)) = [].
Proof. intros [|]; vm_compute; repeat split. Qed.

(* ... and while blocked under the non-canonical text the subnet is enforced and
   listed in canonical form, before and after a restart *)
Example noncanonical_block_enforced :
  let h := [EOp (Block (RSubnet (mkSnet (IP4 167838211) false 24)))] in
  let m1 := g_mem (run init_state h) in
  let m2 := g_mem (run init_state (h ++ [EReopen])) in
  intercept_accept m1 (Some (IP4 167838217)) = false /\
  list_subnets m1 = [mkSnet (IP4 167838208) false 24] /\
  list_subnets m2 = [mkSnet (IP4 167838208) false 24].
Proof. vm_compute. repeat split. Qed.

(* ---- non-vacuity ------------------------------------------------------------------- *)
(* a reachable state that enforces a peer, an address and a subnet rule after a
   process stop between the datastore write and the memory update *)
Example rules_survive_crash :
  let h := [EOp (Block (RPeer 7)); ECrashAfter (Block (RAddr (IP4 16909060)));
            EOp (Block (RSubnet (mkSnet (IP16 (mapped 167772160)) true 104))); EReopen] in
  let m := g_mem (run init_state h) in
  intercept_peer_dial m 7 = false /\
  intercept_addr_dial m (Some (IP16 (mapped 16909060))) = false /\    (* ::ffff:1.2.3.4 *)
  intercept_accept m (Some (IP4 184549375)) = false /\                (* 10.255.255.255, last of 10/8 *)
  intercept_accept m (Some (IP4 184549376)) = true /\                 (* 11.0.0.0 *)
  intercept_addr_dial m None = true.
Proof. vm_compute. repeat split. Qed.

(* subnet edges: /0, /32, /128, IPv4-mapped forms, IPv4 never inside an IPv6 subnet *)
Example subnet_edges :
  let all4 := mkSnet (IP4 0) false 0 in
  let all6 := mkSnet (IP16 0) true 0 in
  let host4 := mkSnet (IP4 16909060) false 32 in
  let host6 := mkSnet (IP16 1) true 128 in
  contains all4 (IP4 4294967295) = true /\ contains all4 (IP16 (mapped 0)) = true /\
  contains all4 (IP16 1) = false /\
  contains all6 (IP16 1) = true /\ contains all6 (IP4 16909060) = false /\
  contains all6 (IP16 (mapped 16909060)) = false /\
  contains host4 (IP16 (mapped 16909060)) = true /\ contains host4 (IP4 16909061) = false /\
  contains host4 (IP4 16909059) = false /\
  contains host6 (IP16 1) = true /\ contains host6 (IP16 0) = false /\ contains host6 (IP16 2) = false.
Proof. vm_compute. repeat split. Qed.

(* the monitor rejects a trace in which a blocked peer is let through *)
Example monitor_rejects_admitted_peer :
  monitor_trace [PPeerDial 1] [] 0
    [(EOp (Block (RPeer 1)), mkObs 0 [true] [1%Z] [] [] [true] [1%Z] [] [])] <> [].
Proof. vm_compute. discriminate. Qed.

(* ... and one in which a rule is lost by a restart *)
Example monitor_rejects_lost_rule :
  monitor_trace [PAccept (Some (IP4 16909060))] [] 0
    [(EOp (Block (RAddr (IP4 16909060))), mkObs 0 [false] [] [IP16 (mapped 16909060)] [] [false] [] [IP16 (mapped 16909060)] []);
     (EReopen, mkObs 0 [true] [] [] [] [true] [] [] [])] <> [].
Proof. vm_compute. discriminate. Qed.

(* the end-to-end monitor rejects a transport dial to a blocked peer *)
Example monitor_rejects_dial_to_blocked_peer :
  monitor_e2e (mkE2E false OForceDirect true [EOp (Block (RPeer 1))] 1 [Some (IP4 2130706433)]
                     [PvPeerDial 1 true; PvTransportDial 0] 0 0 []) <> [].
Proof. vm_compute. discriminate. Qed.

(* the monitor rejects a running gater that disagrees with its datastore after a
   FAILED call: BlockAddr(1.2.3.4) returned nil, UnblockAddr(1.2.3.4) returned
   the datastore's error, yet the running gater lets 1.2.3.4 through and no
   longer lists it, while a gater reopened on the datastore refuses it *)
Example monitor_rejects_memory_datastore_disagreement :
  monitor_trace [PAddrDial (Some (IP4 16909060))] [] 0
    [(EOp (Block (RAddr (IP4 16909060))),
      mkObs 0 [false] [] [IP16 (mapped 16909060)] [] [false] [] [IP16 (mapped 16909060)] []);
     (EFail (Unblock (RAddr (IP4 16909060))),
      mkObs 1 [true] [] [] [] [false] [] [IP16 (mapped 16909060)] [])] = [ERR_PROPERTY; 1; 5; 0]%Z.
Proof. vm_compute. reflexivity. Qed.

(* ... and accepts the same history when the failed call left both sides alone *)
Example monitor_accepts_failed_unblock_kept :
  monitor_trace [PAddrDial (Some (IP4 16909060))] [] 0
    (model_trace [PAddrDial (Some (IP4 16909060))] init_state
       [EOp (Block (RAddr (IP4 16909060))); EFail (Unblock (RAddr (IP4 16909060)))]) = [] /\
  intercept_addr_dial (g_mem (run init_state
       [EOp (Block (RAddr (IP4 16909060))); EFail (Unblock (RAddr (IP4 16909060)))])) (Some (IP4 16909060)) = false.
Proof. vm_compute. split; reflexivity. Qed.

(* the resolver-case monitor rejects a connection to a blocked IP reached through a
   name: 127.0.0.1 blocked, the swarm's lookup of the name failed, the name was
   handed to the transport, which looked it up itself and connected to 127.0.0.1 *)
Example monitor_rejects_connection_to_blocked_ip_behind_name :
  monitor_res (mkRcase [EOp (Block (RAddr (IP4 2130706433)))] 1 [KName None]
                 [RvPeerDial true; RvAddrDial None true; RvTptDial None; RvTptConn (IP4 2130706433)])
  = [ERR_PROPERTY; 32; 3]%Z.
Proof. vm_compute. reflexivity. Qed.

(* reachable, non-trivial resolver case: one name resolves to a blocked and an
   unblocked address, another fails, a third address is a blocked IP — exactly
   the unblocked answer is dialed *)
Example resolver_case_dials_only_unblocked :
  let m := g_mem (run init_state [EOp (Block (RAddr (IP4 2130706433)))]) in
  rdial m 1 [KName (Some [IP4 2130706433; IP4 2130706434]); KName None; KIp (IP16 (mapped 2130706433))] =
  [RvPeerDial true; RvAddrDial (Some (IP4 2130706433)) false;
   RvAddrDial (Some (IP4 2130706434)) true; RvTptDial (Some (IP4 2130706434)); RvTptConn (IP4 2130706434);
   RvAddrDial (Some (IP16 (mapped 2130706433))) false].
Proof. vm_compute. reflexivity. Qed.

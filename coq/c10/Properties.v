(* C10 — property theorems (being filled in). *)
From Coq Require Import List NArith ZArith Bool.
From Verif Require Import lib.Wire c10.Model c10.Spec gen.Consts_c10.
Import ListNotations.

#!/usr/bin/env python3
"""Print, per property, the theorems of coq/cNN/Properties*.v (names; `_partial` ones flagged) as markdown."""
import glob, os, re
for d in sorted(glob.glob("/verif/coq/c[0-9][0-9]")):
    pid = os.path.basename(d).upper()
    names = []
    for f in sorted(glob.glob(d + "/Properties*.v")):
        src = re.sub(r"\(\*.*?\*\)", "", open(f).read(), flags=re.S)
        names += re.findall(r"^\s*(?:Theorem|Corollary)\s+(\w+)", src, re.M)
    ex = 0
    for f in sorted(glob.glob(d + "/Properties*.v")):
        ex += len(re.findall(r"^\s*Example\s+\w+", open(f).read(), re.M))
    lines = sum(len(open(f).read().splitlines()) for f in glob.glob(d + "/*.v"))
    part = [n for n in names if "partial" in n or "refuted" in n]
    print("| %s | %d | %d | %d | %s | %s |" % (pid, lines, len(names), ex, ", ".join("`%s`" % n for n in part) or "—",
                                            ", ".join("`%s`" % n for n in names[:6]) + (" …" if len(names) > 6 else "")))

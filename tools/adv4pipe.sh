#!/bin/sh
# tools/adv4pipe.sh <ID> [verifdir]  -- confirm, run the check against, and save the round-4 changes of one property
ID="$1"; V="${2:-/verif}"; lid=$(echo $ID | tr A-Z a-z); WT=/tmp/adv4-$lid
L=/verif/.work/adv4
mkdir -p $L
[ -f $L/confirm_$lid.log ] || /verif/tools/advconfirm.py $WT > $L/confirm_$lid.log 2>&1
sed "s#cd /verif #cd $V #; s#/verif/replays#$V/replays#" /verif/tools/advrun.sh > $L/advrun_$lid.sh
sh $L/advrun_$lid.sh $ID $WT > $L/run_$lid.log 2>&1
/verif/tools/saveseeded.py $ID $WT $L/run_$lid.log > $L/save_$lid.log 2>&1
echo "$ID done"

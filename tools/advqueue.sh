#!/bin/sh
# tools/advqueue.sh ID...  -- run advrun for each ID sequentially (waits while another advrun is running)
for ID in "$@"; do
  lid=$(echo $ID | tr A-Z a-z)
  while pgrep -f "tools/advrun.sh" >/dev/null 2>&1; do sleep 20; done
  /verif/tools/advrun.sh $ID /tmp/adv-$lid > /verif/.work/adv_$lid.log 2>&1
done

#!/usr/bin/env python3
"""tools/advrecheck.py <ID> <mN> : for a seeded change whose confirmation listed existing tests failing only with the
patch (timing / fixed-port flakes of p2p/net/swarm under load), re-run exactly those tests 3 times with the patch in a
fresh scratch worktree; they count as passing if every named test passes in at least 2 of 3 runs. Updates meta.json."""
import json, os, re, subprocess, sys
ID, m = sys.argv[1], sys.argv[2]
d = "/verif/seeded/%s-%s" % (ID, m)
meta = json.load(open(d + "/meta.json"))
cc = meta.get("coordinator_confirm", {})
tests = cc.get("existing_tests_failing_only_with_patch", [])
wt = "/tmp/recheck-%s-%s" % (ID.lower(), m)
env = dict(os.environ, GOPROXY="off"); env.pop("GOFLAGS", None)
subprocess.run(["git", "-C", "/repo", "worktree", "remove", "--force", wt], capture_output=True)
subprocess.run(["git", "-C", "/repo", "worktree", "add", "--detach", wt, "HEAD"], capture_output=True, check=True)
try:
    subprocess.run(["git", "-C", wt, "apply", d + "/patch.diff"], check=True)
    pkgs = sorted(set("./" + os.path.dirname(f) + "/" for f in cc.get("touched", []) if f.endswith(".go")))
    pat = "^(" + "|".join(re.escape(t.split("/")[0]) for t in tests) + ")$"
    passes = {t: 0 for t in tests}
    for i in range(3):
        p = subprocess.run("go test -vet=off -count=1 -timeout 600s -run '%s' -v %s 2>&1" % (pat, " ".join(pkgs)), shell=True, cwd=wt, env=env, capture_output=True)
        out = p.stdout.decode(errors="replace")
        for t in tests:
            if re.search(r"^--- PASS: %s " % re.escape(t), out, re.M):
                passes[t] += 1
    ok = all(v >= 2 for v in passes.values())
    cc["recheck_of_flaky_existing_tests"] = {"runs": 3, "passes_with_patch": passes, "ok": ok}
    if ok and cc.get("builds") and cc.get("demo_without_patch") == "pass" and cc.get("demo_with_patch") == "FAIL":
        cc["ok"] = True
    meta["coordinator_confirm"] = cc
    json.dump(meta, open(d + "/meta.json", "w"), indent=1)
    print(ID, m, passes, ok)
finally:
    subprocess.run(["git", "-C", "/repo", "worktree", "remove", "--force", wt], capture_output=True)

#!/usr/bin/env python3
"""tools/advconfirm.py <worktree>  -- coordinator's own confirmation of every out/m*/ of an adversary worktree:
 (a) the patch applies and the touched packages compile (go build + go vet-free test compile),
 (b) the existing tests of the touched packages pass with the patch (known baseline failures tolerated:
     a test that fails with the patch is re-run without it, and only counts if it passes there),
 (c) the author's demonstration fails WITH the patch and passes WITHOUT it.
Writes out/m*/confirm.json and prints one line per change."""
import json, os, re, subprocess, sys, shutil
wt = sys.argv[1]
only = sys.argv[2:]
env = dict(os.environ, GOPROXY="off")
env.pop("GOFLAGS", None)

def sh(cmd, timeout=1500):
    try:
        p = subprocess.run(cmd, shell=True, cwd=wt, env=env, capture_output=True, timeout=timeout)
        return p.returncode, (p.stdout + p.stderr).decode(errors="replace")
    except subprocess.TimeoutExpired:
        return 124, "timeout"

def clean():
    sh("git checkout -q -- . ; git clean -fdq -e out -e PROMPT.md")

def failed_tests(out):
    return sorted(set(re.findall(r"^--- FAIL: (\S+)", out, re.M)))

for m in sorted(os.listdir(os.path.join(wt, "out"))):
    d = os.path.join(wt, "out", m)
    if not os.path.isfile(os.path.join(d, "patch.diff")) or (only and m not in only):
        continue
    clean()
    res = {}
    try:
        meta = json.load(open(os.path.join(d, "meta.json")))
    except Exception as e:
        meta = {}
    rc, out = sh("git apply --check out/%s/patch.diff" % m)
    if rc != 0:
        res = {"ok": False, "why": "patch does not apply: " + out[:200]}
        json.dump(res, open(os.path.join(d, "confirm.json"), "w"), indent=1); print(m, res); continue
    rc, out = sh("git apply --numstat out/%s/patch.diff" % m)
    files = [l.split("\t")[2] for l in out.strip().splitlines() if l.count("\t") >= 2]
    pkgs = sorted(set("./" + os.path.dirname(f) + "/" for f in files if f.endswith(".go")))
    res["touched"] = files
    demo_pkg = (meta.get("demo_pkg") or "").strip().strip("/")
    demo_pkg = re.sub(r"^\./", "", demo_pkg)
    demo_run = meta.get("demo_run") or "."
    demo_src = os.path.join(d, "demo_test.go")
    demo_dst = os.path.join(wt, demo_pkg, "zz_adv_demo_test.go") if demo_pkg else None

    def run_demo():
        if not demo_dst or not os.path.isfile(demo_src) or not os.path.isdir(os.path.dirname(demo_dst)):
            return None, "no demo / bad demo_pkg %r" % demo_pkg
        shutil.copy(demo_src, demo_dst)
        try:
            rc, out = sh("go test -vet=off -count=1 -timeout 600s -run '%s' ./%s/" % (demo_run, demo_pkg), 900)
        finally:
            os.remove(demo_dst)
        ran = len(re.findall(r"^(--- |=== RUN)", out, re.M)) > 0 or "ok " in out
        return rc, out[-600:]
    # without the patch
    rc0, o0 = run_demo()
    res["demo_without_patch"] = "pass" if rc0 == 0 else ("n/a" if rc0 is None else "FAIL")
    sh("git apply out/%s/patch.diff" % m)
    rcb, ob = sh("go build ./... 2>&1 | tail -5", 900)
    res["builds"] = (rcb == 0 and "error" not in ob.lower()) if True else None
    rc1, o1 = run_demo()
    res["demo_with_patch"] = "pass" if rc1 == 0 else ("n/a" if rc1 is None else "FAIL")
    if rc1 not in (0, None):
        res["demo_failure_tail"] = o1[-300:]
    # existing tests of the touched packages, with the patch
    rct, ot = sh("go test -vet=off -count=1 -timeout 900s %s 2>&1" % " ".join(pkgs), 1400) if pkgs else (0, "")
    ft = failed_tests(ot)
    build_fail = "[build failed]" in ot or "[setup failed]" in ot
    still = []
    if ft and not build_fail:
        clean()
        pat = "^(" + "|".join(re.escape(t.split("/")[0]) for t in ft) + ")$"
        rcu, ou = sh("go test -vet=off -count=1 -timeout 900s -run '%s' %s 2>&1" % (pat, " ".join(pkgs)), 1400)
        base_fail = set(failed_tests(ou))
        still = [t for t in ft if t not in base_fail]
    res["existing_tests_failing_only_with_patch"] = still
    res["existing_tests_build_failed"] = build_fail
    res["ok"] = bool(res["builds"] and not build_fail and not still and res["demo_without_patch"] == "pass" and res["demo_with_patch"] == "FAIL")
    clean()
    json.dump(res, open(os.path.join(d, "confirm.json"), "w"), indent=1)
    print(m, json.dumps({k: v for k, v in res.items() if k not in ("touched", "demo_failure_tail")}))
clean()

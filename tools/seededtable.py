#!/usr/bin/env python3
"""Print a markdown table of the seeded changes under /verif/seeded (for DESIGN.md 13.6)."""
import json, os, re
root = "/verif/seeded"
rows = []
for d in sorted(os.listdir(root)):
    mp = os.path.join(root, d, "meta.json")
    if not os.path.exists(mp):
        continue
    m = json.load(open(mp))
    cr = m.get("coordinator_run") or {}
    first = cr.get("detected")
    if first is None and m.get("confirmed_by_coordinator"):
        first = True
    after = m.get("after_strengthening") or {}
    status = "caught (concrete case)" if (first and cr.get("concrete_failing_input", True)) else ("caught, no failing input" if first else "MISSED")
    if after:
        status += " -> after strengthening: " + ("caught (concrete case)" if after.get("concrete_failing_input") else ("caught" if after.get("detected") else "still missed"))
    summ = re.sub(r"\s+", " ", str(m.get("summary", "")))[:150]
    rows.append("| %s | %s | %s |" % (d, summ.replace("|", "/"), status))
print("| Seeded change | What it does | First run of the check |")
print("|---|---|---|")
print("\n".join(rows))

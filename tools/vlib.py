#!/usr/bin/env python3
"""Shared machinery for the per-property checks (checks/cNN.py).

A check is: (1) regenerate what is regenerated from /repo, (2) build the Coq
targets of the property and audit them (proof obligations), (3) run the Go
harness against /repo's current working tree (overlay-injected, -tags verif),
(4) run the extracted model/monitor over the recorded cases, (5) verdict,
replay and evidence.  See DESIGN.md sections 4 and 5.
"""
import hashlib
import json
import os
import re
import shutil
import subprocess
import sys
import time

VERIF = os.path.dirname(os.path.dirname(os.path.abspath(__file__)))
REPO = os.environ.get("VERIF_REPO", "/repo")
COQ = os.path.join(VERIF, "coq")
WORK = os.path.join(VERIF, ".work")
MODPATH = "github.com/libp2p/go-libp2p"

STD_TRUSTED = [
    "Coq 8.16.1 kernel + coqc (vm_compute used for reflection and cases; native_compute not used)",
    "axioms: none (every property theorem prints 'Closed under the global context')",
    "extraction: ExtrOcamlBasic only, no Extract Constant/Inductive of ours; OCaml 4.13.1 ocamlopt; 60-line driver_body.ml",
    "Go toolchain, `go test -overlay` injection of /verif/harness files, harness generators and canonicalisation",
]

FORBIDDEN = re.compile(
    r"\b(Admitted|admit|Axiom|Axioms|Parameter|Parameters|Conjecture|Conjectures)\b"
    r"|Admit\s+Obligations|Unset\s+Guard\s+Checking|Unset\s+Positivity\s+Checking"
    r"|Unset\s+Universe\s+Checking|bypass_check|type-in-type|impredicative-set"
    r"|Local\s+Unset\s+Guard|give_up")

ALLOWED_AXIOMS = {
    # stdlib axioms that may legitimately appear (none expected); listed in DESIGN.md 7
    "functional_extensionality_dep", "Eqdep.Eq_rect_eq.eq_rect_eq", "JMeq_eq",
    "Classical_Prop.classic", "proof_irrelevance", "FunctionalExtensionality.functional_extensionality_dep",
}


def strip_comments(src):
    out, depth, i, n = [], 0, 0, len(src)
    instr = False
    while i < n:
        if not instr and src.startswith("(*", i):
            depth += 1
            i += 2
            continue
        if not instr and depth > 0 and src.startswith("*)", i):
            depth -= 1
            i += 2
            continue
        c = src[i]
        if depth == 0:
            if c == '"':
                instr = not instr
            out.append(c)
        elif c == "\n":
            out.append(c)
        i += 1
    return "".join(out)


class Ctx:
    def __init__(self, pid, argv=None):
        self.pid = pid.upper()
        self.lid = pid.lower()
        argv = argv if argv is not None else sys.argv[1:]
        self.tier = os.environ.get("VERIF_TIER", "quick")
        self.replay_path = None
        self.setup_only = False
        i = 0
        while i < len(argv):
            if argv[i] == "--tier":
                self.tier = argv[i + 1]
                i += 2
            elif argv[i] == "--setup":
                self.setup_only = True
                i += 1
            elif argv[i] == "--replay":
                self.replay_path = argv[i + 1]
                i += 2
            else:
                i += 1
        if self.tier not in ("quick", "thorough"):
            self.tier = "quick"
        try:
            self.seed = int(os.environ.get("VERIF_SEED", "1"))
        except ValueError:
            self.seed = 1
        self.t0 = time.time()
        self.work = os.path.join(WORK, self.lid)
        os.makedirs(self.work, exist_ok=True)
        # one run per property at a time: the work directory and gen/Consts_cNN.v are shared
        # (e.g. a run against a scratch worktree through VERIF_REPO and a run against /repo)
        import fcntl
        self._runlock = open(os.path.join(WORK, self.lid + ".runlock"), "w")
        fcntl.flock(self._runlock, fcntl.LOCK_EX)
        os.makedirs(os.path.join(VERIF, "evidence"), exist_ok=True)
        os.makedirs(os.path.join(VERIF, "replays"), exist_ok=True)
        self.obligations = []      # (name, ok, detail)
        self.violations = []       # replay paths
        self.known_hits = []
        self.notes = []
        self.coverage_extra = {}
        self.samples = []
        self.evaluations = 0
        self.distinct_nontrivial = 0
        self.traces_validated = 0
        self.rule = ""
        self.trusted = list(STD_TRUSTED)
        self.assumptions = []
        self.checker_cmd = ""
        self.known = load_known()
        self._printed = set()

    # ---- processes -------------------------------------------------------
    def sh(self, cmd, cwd=None, env=None, timeout=3600, stdin=None):
        e = dict(os.environ)
        e.setdefault("GOPROXY", "off")
        e.pop("GOFLAGS", None)
        if env:
            e.update(env)
        try:
            p = subprocess.run(cmd, cwd=cwd, env=e, timeout=timeout, stdin=stdin,
                               stdout=subprocess.PIPE, stderr=subprocess.STDOUT,
                               shell=isinstance(cmd, str))
            return p.returncode, p.stdout.decode("utf-8", "replace")
        except subprocess.TimeoutExpired as ex:
            out = ex.stdout.decode("utf-8", "replace") if ex.stdout else ""
            return 124, out + "\n[timeout after %ss]" % timeout

    def log(self, msg):
        print("[%s %6.1fs] %s" % (self.pid, time.time() - self.t0, msg), flush=True)

    # ---- regenerated constants ------------------------------------------
    def gen_consts_go(self, pkg, idents, modname=None, extra_imports=(), exprs=None):
        """Compile-and-print: an overlay-injected in-package test prints
        int64(<expr>) for each identifier/expression; the Go compiler does the
        constant evaluation.  Writes coq/gen/Consts_<pid>.v (appending if
        called several times in one run).  A missing identifier is a compile
        error -> obligation 'consts' fails.
        idents: list of Go identifiers; exprs: dict coqname -> Go expression."""
        items = [(re.sub(r"\W", "_", i), i) for i in idents]
        if exprs:
            items += list(exprs.items())
        pkgdir = os.path.join(REPO, pkg)
        pkgname = self._go_pkgname(pkgdir)
        body = ["//go:build verif", "", "package " + pkgname, "", "import (", '\t"fmt"', '\t"testing"']
        for imp in extra_imports:
            body.append('\t"%s"' % imp)
        body += [")", "", "func TestVerifConsts(t *testing.T) {"]
        for cn, ex in items:
            body.append('\tfmt.Printf("VCONST %s %%d\\n", int64(%s))' % (cn, ex))
        body += ["}", ""]
        src = os.path.join(self.work, "consts_%s_test.go" % re.sub(r"\W", "_", pkg))
        with open(src, "w") as f:
            f.write("\n".join(body))
        rc, out = self.go_test(pkg, "TestVerifConsts$", {pkg + "/zz_verif_consts_test.go": src}, timeout=900, extra=("-v",))
        vals = dict(re.findall(r"^VCONST (\w+) (-?\d+)$", out, re.M))
        ok = rc == 0 and all(cn in vals for cn, _ in items)
        if not ok:
            self.obligations.append(("consts:" + pkg, False, out[-2000:]))
            return None
        self._append_consts(vals, "from %s (compile-and-print)" % pkg)
        self.obligations.append(("consts:" + pkg, True, ""))
        return {k: int(v) for k, v in vals.items()}

    def _go_pkgname(self, pkgdir):
        for fn in sorted(os.listdir(pkgdir)):
            if fn.endswith(".go") and not fn.endswith("_test.go"):
                with open(os.path.join(pkgdir, fn)) as f:
                    m = re.search(r"^package\s+(\w+)", f.read(), re.M)
                    if m:
                        return m.group(1)
        raise RuntimeError("no package clause in " + pkgdir)

    def _consts_path(self):
        os.makedirs(os.path.join(COQ, "gen"), exist_ok=True)
        return os.path.join(COQ, "gen", "Consts_%s.v" % self.lid)

    def begin_consts(self):
        self._consts_buf = ["(* REGENERATED from /repo on every run by tools/vlib.py; do not edit *)",
                            "From Coq Require Import ZArith List.", "Import ListNotations.", "Local Open Scope Z_scope.", ""]

    def _append_consts(self, vals, comment):
        if not hasattr(self, "_consts_buf"):
            self.begin_consts()
        self._consts_buf.append("(* %s *)" % comment)
        for k in sorted(vals):
            self._consts_buf.append("Definition %s : Z := %s." % (k, fmt_z(int(vals[k]))))
        self._consts_buf.append("")

    def add_const_raw(self, text, comment=""):
        if not hasattr(self, "_consts_buf"):
            self.begin_consts()
        if comment:
            self._consts_buf.append("(* %s *)" % comment)
        self._consts_buf.append(text)
        self._consts_buf.append("")

    def end_consts(self):
        if not hasattr(self, "_consts_buf"):
            self.begin_consts()
        new = "\n".join(self._consts_buf) + "\n"
        p = self._consts_path()
        old = open(p).read() if os.path.exists(p) else None
        if old != new:
            with open(p, "w") as f:
                f.write(new)
        return p

    # ---- Coq -------------------------------------------------------------
    def coq_build(self, targets, timeout=1800, clean=False):
        """make the given .vo targets (and their dependencies only).  Each
        target is one obligation 'coq:<target>'."""
        rc, out = self.sh(["flock", os.path.join(WORK, "coq.lock"), os.path.join(VERIF, "tools", "mkcoqproject.sh")])
        if rc != 0:
            self.obligations.append(("coq:project", False, out[-2000:]))
            return False
        if clean:
            self.sh("make clean >/dev/null 2>&1; true", cwd=COQ)
            self.sh([os.path.join(VERIF, "tools", "mkcoqproject.sh")])
        allok = True
        for t in targets:
            rc, out = self.sh(["flock", os.path.join(WORK, "coq.lock"), "make", "-j16", t], cwd=COQ, timeout=timeout)
            ok = rc == 0
            if not ok:
                allok = False
                m = re.search(r'File "([^"]+)", line (\d+)', out)
                where = "%s:%s" % (m.group(1), m.group(2)) if m else "?"
                self.obligations.append(("coq:" + t, False, where + " " + out[-1500:]))
            else:
                self.obligations.append(("coq:" + t, True, ""))
        return allok

    def audit(self, props_v):
        """Forbidden-token scan over the whole development, then re-run coqc on
        the Properties file to capture Print Assumptions; one obligation per
        Theorem in it."""
        bad = []
        for p in sorted(self._coq_deps(props_v)):
            src = strip_comments(open(p).read())
            for m in FORBIDDEN.finditer(src):
                ln = src.count("\n", 0, m.start()) + 1
                bad.append("%s:%d:%s" % (os.path.relpath(p, COQ), ln, m.group(0)))
            # Variable/Hypothesis outside a Section
            depth = 0
            for ln, line in enumerate(src.split("\n"), 1):
                st = line.strip()
                if re.match(r"(Section|Module)\s+\w+", st) and not re.match(r"Module\s+\w+\s*:=", st):
                    depth += 1
                elif re.match(r"End\s+\w+\s*\.", st):
                    depth = max(0, depth - 1)
                elif depth == 0 and re.match(r"(Variable|Variables|Hypothesis|Hypotheses|Context)\b", st):
                    bad.append("%s:%d:%s outside section" % (os.path.relpath(p, COQ), ln, st.split()[0]))
        self.obligations.append(("audit:forbidden-tokens", not bad, "; ".join(bad[:20])))
        full = os.path.join(COQ, props_v)
        src = strip_comments(open(full).read())
        theorems = re.findall(r"^\s*Theorem\s+(\w+)", src, re.M)
        printed = re.findall(r"Print\s+Assumptions\s+(\w+)\s*\.", src)
        rc, out = self.sh(["coqc", "-R", ".", "Verif", "-w", "none", props_v], cwd=COQ, timeout=1800)
        # split output into blocks, one per Print Assumptions, in order
        blocks = re.split(r"(?=^Closed under the global context|^Axioms:|^Section Variables:)", out, flags=re.M)
        blocks = [b for b in blocks if b.startswith(("Closed under", "Axioms:", "Section Variables:"))]
        axioms_seen = set()
        for idx, th in enumerate(theorems):
            if th not in printed:
                self.obligations.append(("thm:" + th, False, "no Print Assumptions under it"))
                continue
            k = printed.index(th)
            if rc != 0 or k >= len(blocks):
                self.obligations.append(("thm:" + th, False, "Properties file did not compile: " + out[-800:]))
                continue
            b = blocks[k]
            if b.startswith("Closed under"):
                self.obligations.append(("thm:" + th, True, "closed"))
            else:
                names = set(re.findall(r"^(\S+)\s*:", b, re.M)) - {"Axioms", "Section"}
                extra = {n for n in names if n.split(".")[-1] not in {a.split(".")[-1] for a in ALLOWED_AXIOMS}}
                axioms_seen |= names
                self.obligations.append(("thm:" + th, not extra, "axioms: " + ", ".join(sorted(names))))
        if axioms_seen:
            self.trusted.append("stdlib axioms reported by Print Assumptions: " + ", ".join(sorted(axioms_seen)))
        self.checker_cmd = "cd /verif/coq && make -j16 %s && coqc -R . Verif %s  (Print Assumptions under every theorem)" % (
            props_v.replace(".v", ".vo"), props_v)
        return theorems

    def _coq_deps(self, props_v):
        """All .v files of our development that props_v (transitively) requires,
        plus every file in the property's own directory."""
        todo = [os.path.join(COQ, props_v)]
        d = os.path.dirname(todo[0])
        todo += [os.path.join(d, f) for f in os.listdir(d) if f.endswith(".v") and not f.startswith(("cases_", "zz_"))]
        seen = set()
        while todo:
            p = todo.pop()
            if p in seen or not os.path.exists(p):
                continue
            seen.add(p)
            src = strip_comments(open(p).read())
            for m in re.finditer(r"From\s+Verif\s+Require\s+(?:Import|Export)?\s*(.*?)\.(?=\s)", src, re.S):
                for mod in m.group(1).split():
                    todo.append(os.path.join(COQ, mod.replace(".", "/") + ".v"))
            for m in re.finditer(r"Require\s+(?:Import|Export)?\s+Verif\.([\w.]+)", src):
                todo.append(os.path.join(COQ, m.group(1).replace(".", "/") + ".v"))
        return seen

    def coqchk(self, modules, timeout=3000):
        rc, out = self.sh(["coqchk", "-silent", "-o", "-R", ".", "Verif"] + modules, cwd=COQ, timeout=timeout)
        ok = rc == 0
        self.obligations.append(("coqchk:" + ",".join(modules), ok, out[-1500:] if not ok else ""))
        m = re.search(r"\* Axioms:(.*?)(\n\s*\n|\Z)", out, re.S)
        if ok and m:
            self.coverage_extra["coqchk_axioms"] = " ".join(m.group(1).split())
        return ok

    def build_driver(self):
        """ocamlopt the extracted <pid>_model.ml with the shared driver body."""
        ex = os.path.join(COQ, "extract")
        model = os.path.join(ex, "%s_model.ml" % self.lid)
        if not os.path.exists(model):
            self.obligations.append(("driver:" + self.lid, False, "no extracted model"))
            return None
        main = os.path.join(ex, "%s_main.ml" % self.lid)
        with open(main, "w") as f:
            f.write("open %s_model\n" % self.lid.capitalize())
            f.write(open(os.path.join(ex, "driver_body.ml")).read())
        exe = os.path.join(ex, "%s_driver" % self.lid)
        rc, out = self.sh(["ocamlfind", "ocamlopt", "-O3", "-w", "-a", "%s_model.mli" % self.lid,
                           "%s_model.ml" % self.lid, "%s_main.ml" % self.lid, "-o", exe], cwd=ex, timeout=600)
        if rc != 0:
            self.obligations.append(("driver:" + self.lid, False, out[-1500:]))
            return None
        return exe

    # ---- Go harness ------------------------------------------------------
    def overlay(self, entries):
        """entries: repo-relative path -> absolute path of the file to inject.
        The shared helper package internal/verifh is always injected."""
        rep = {}
        hd = os.path.join(VERIF, "harness/verifh")
        for fn in sorted(os.listdir(hd)):
            if fn.endswith(".go"):
                rep[os.path.join(REPO, "internal/verifh", fn)] = os.path.join(hd, fn)
        for k, v in entries.items():
            rep[os.path.join(REPO, k)] = v if os.path.isabs(v) else os.path.join(VERIF, v)
        p = os.path.join(self.work, "overlay.json")
        with open(p, "w") as f:
            json.dump({"Replace": rep}, f, indent=1)
        return p

    def go_test(self, pkg, run, entries, env=None, timeout=None, extra=()):
        """go test -tags verif -overlay ... -run <run> ./<pkg> inside /repo (its
        current working tree).  Nothing is written to /repo.  A harness that does not finish
        (a change to /repo that makes it hang) is ended by go test's own -timeout (goroutine dump,
        non-zero exit => obligation harness:run broken => VIOLATION): 20 min in the quick tier
        (harness runs take 10-120 s there), 60 min in the thorough tier."""
        if timeout is None:
            timeout = 1200 if self.tier == "quick" else 3600
        ov = self.overlay(entries)
        e = {"VERIF_SEED": str(self.seed), "VERIF_TIER": self.tier}
        if env:
            e.update(env)
        pkgs = [pkg] if isinstance(pkg, str) else list(pkg)
        cmd = ["go", "test", "-tags", "verif", "-vet=off", "-overlay", ov, "-count=1",
               "-timeout", "%ds" % timeout, "-run", run] + list(extra) + ["./" + p for p in pkgs]
        return self.sh(cmd, cwd=REPO, env=e, timeout=timeout + 60)

    def go_harness_module(self, reldir, args, env=None, timeout=3600):
        """Run `go test`/`go run` in an external harness module under
        /verif/harness/<reldir> that has `replace github.com/libp2p/go-libp2p => /repo`."""
        d = os.path.join(VERIF, "harness", reldir)
        shutil.copyfile(os.path.join(REPO, "go.sum"), os.path.join(d, "go.sum"))
        e = {"VERIF_SEED": str(self.seed), "VERIF_TIER": self.tier, "GOFLAGS": "-mod=mod"}
        if env:
            e.update(env)
        return self.sh(["go"] + list(args), cwd=d, env=e, timeout=timeout)

    # ---- model over cases ------------------------------------------------
    def run_driver(self, exe, casefile, mode="both", timeout=3600):
        with open(casefile, "rb") as f:
            # extracted code recurses over long cases: give it an unlimited stack
            rc, out = self.sh("ulimit -s unlimited 2>/dev/null; exec '%s' %s" % (exe, mode), stdin=f, timeout=timeout)
        res = {"C": [], "M": [], "done": None, "rc": rc}
        for line in out.splitlines():
            t = line.split()
            if not t:
                continue
            if t[0] in ("C", "M"):
                res[t[0]].append((int(t[1]), [int(x) for x in t[2:]]))
            elif t[0] == "DONE":
                res["done"] = (int(t[1]), int(t[2]), int(t[3]))
        if res["done"] is None:
            res["err"] = out[-1500:]
        return res

    def vm_crosscheck(self, spec_module, lines, timeout=900):
        """Evaluate conform_case/monitor_case on the given cases inside coqc
        (vm_compute) and return [(conform_result, monitor_result)] so the
        caller can compare with the extracted driver's answers."""
        if not lines:
            return []
        name = "cases_%s" % self.lid
        p = os.path.join(COQ, self.lid, name + ".v")
        with open(p, "w") as f:
            f.write("From Coq Require Import List ZArith.\nFrom Verif Require Import %s.\nImport ListNotations.\nLocal Open Scope Z_scope.\n" % spec_module)
            f.write("Definition cases : list (list Z) := [\n")
            f.write(";\n".join("[" + "; ".join(fmt_z(x) for x in ln) + "]" for ln in lines))
            f.write("].\n")
            f.write("Definition sep (l : list Z) : list Z := l ++ [-777777].\n")
            f.write("Definition R := Eval vm_compute in flat_map (fun c => sep (conform_case c) ++ sep (monitor_case c)) cases.\nPrint R.\n")
        rc, out = self.sh(["coqc", "-R", ".", "Verif", "-w", "none", os.path.join(self.lid, name + ".v")], cwd=COQ, timeout=timeout)
        for ext in (".vo", ".glob", ".vos", ".vok"):
            try:
                os.remove(os.path.join(COQ, self.lid, name + ext))
            except OSError:
                pass
        try:
            os.remove(os.path.join(COQ, self.lid, "." + name + ".aux"))
        except OSError:
            pass
        if rc != 0:
            return None
        body = out.split("R =", 1)[-1]
        body = body.split(": list Z")[0]
        nums = [int(x) for x in re.findall(r"-?\d+", body)]
        groups, cur = [], []
        for x in nums:
            if x == -777777:
                groups.append(cur)
                cur = []
            else:
                cur.append(x)
        return [(groups[2 * i], groups[2 * i + 1]) for i in range(len(groups) // 2)]

    # ---- verdicts --------------------------------------------------------
    def write_replay(self, name, obj):
        p = os.path.join(VERIF, "replays", "%s_%s.json" % (self.pid, name))
        obj = dict(obj)
        obj.setdefault("property", self.pid)
        obj.setdefault("seed", self.seed)
        obj.setdefault("tier", self.tier)
        obj.setdefault("replay_cmd", "cd /verif && bin/check %s --replay %s" % (self.pid, p))
        with open(p, "w") as f:
            json.dump(obj, f, indent=1)
        return p

    def report_failure(self, key, what, replay_obj, no_input=False):
        """A property failure on the implementation (or a broken obligation /
        correspondence with no failing input).  `key` identifies the failing
        clause + call site + canonical history; matched against
        KNOWN_FINDINGS.json (never by property id alone)."""
        for k in self.known:
            if k.get("status") == "finding" and k.get("property") == self.pid and k.get("key") == key:
                line = "KNOWN-FINDING: property=%s %s" % (self.pid, k.get("what", what))
                if line not in self._printed:
                    print(line, flush=True)
                    self._printed.add(line)
                self.known_hits.append(key)
                return False
        h = hashlib.sha1(key.encode()).hexdigest()[:10]
        p = self.write_replay(h, dict(replay_obj, key=key, what=what, no_failing_input_found=no_input))
        line = "VIOLATION property=%s replay=%s" % (self.pid, p)
        if no_input:
            line += " no-failing-input-found"
        if line not in self._printed:
            print(line, flush=True)
            self._printed.add(line)
        self.violations.append(p)
        return True

    def failed_obligations(self):
        return [(n, d) for (n, ok, d) in self.obligations if not ok]

    def finish(self):
        obl = len(self.obligations)
        dis = sum(1 for (_, ok, _) in self.obligations if ok)
        ev = {
            "property_id": self.pid,
            "tier": self.tier,
            "seed": self.seed,
            "level": "proof",
            "coverage": dict({
                "obligations": obl,
                "discharged": dis,
                "obligation_list": [{"name": n, "ok": ok, "detail": d[:300]} for (n, ok, d) in self.obligations],
                "checker_cmd": self.checker_cmd or "cd /verif/coq && make",
                "trusted_base": self.trusted,
                "evaluations": self.evaluations,
                "distinct_nontrivial": self.distinct_nontrivial,
                "rule": self.rule,
                "samples": self.samples[:8],
                "traces_validated_against_impl": self.traces_validated,
                "known_findings_hit": sorted(set(self.known_hits)),
                "notes": self.notes,
            }, **self.coverage_extra),
            "assumptions": self.assumptions,
            "wall_s": round(time.time() - self.t0, 2),
            "violations": len(self.violations),
        }
        evdir = os.path.join(VERIF, "evidence")
        if os.path.realpath(REPO) != "/repo":
            # a run against a scratch worktree (seeded-change trial) must not replace the evidence of /repo
            evdir = os.path.join(WORK, "evidence-alt")
            os.makedirs(evdir, exist_ok=True)
        with open(os.path.join(evdir, "%s.json" % self.pid), "w") as f:
            json.dump(ev, f, indent=1)
        self.log("obligations %d/%d, evaluations %d, distinct non-trivial %d, violations %d, known findings %d" % (
            dis, obl, self.evaluations, self.distinct_nontrivial, len(self.violations), len(set(self.known_hits))))
        sys.exit(1 if self.violations else 0)


def fmt_z(x):
    return str(x) if x >= 0 else "(%d)" % x


def load_known():
    """Committed known-findings files (never written at run time):
    KNOWN_FINDINGS.json plus the per-property fragments known_findings/Cnn.json."""
    import glob
    entries = []
    for p in [os.path.join(VERIF, "KNOWN_FINDINGS.json")] + sorted(glob.glob(os.path.join(VERIF, "known_findings", "C*.json"))):
        if os.path.exists(p):
            with open(p) as f:
                entries += json.load(f).get("entries", [])
    return entries


def read_cases(path):
    """Yield (lineno, [ints]) for each case line."""
    with open(path) as f:
        for i, line in enumerate(f, 1):
            if line and line[0] != "#" and line.strip():
                yield i, [int(x) for x in line.split()]


def read_cov(path):
    cov = {}
    if os.path.exists(path + ".cov"):
        for line in open(path + ".cov"):
            t = line.split()
            if len(t) == 2:
                cov[t[0]] = int(t[1])
    return cov


def count_cases(path, nontrivial):
    """(#cases, #distinct non-trivial) — distinct by hash of the whole line."""
    n, seen = 0, set()
    with open(path, "rb") as f:
        for line in f:
            if not line.strip() or line[:1] == b"#":
                continue
            n += 1
            if nontrivial(line):
                seen.add(hash(line))
    return n, len(seen)


def get_lines(path, wanted):
    res = {}
    with open(path) as f:
        for i, line in enumerate(f, 1):
            if i in wanted:
                res[i] = [int(x) for x in line.split()]
    return res


def get_line(path, lineno):
    with open(path) as f:
        for i, line in enumerate(f, 1):
            if i == lineno:
                return [int(x) for x in line.split()]
    return None


# ---------------------------------------------------------------------------
# the standard flow used by most properties
# ---------------------------------------------------------------------------
def standard_flow(ctx, spec):
    """spec keys:
      consts(ctx)            optional: regenerate coq/gen/Consts_<pid>.v
      coq_targets            .vo targets (Properties + Extract)
      props                  Properties .v (relative to coq/)
      spec_module            e.g. 'c20.Spec' (for the vm_compute cross-check)
      harness(ctx, casefile, tier, seed) -> (rc, out)   runs the implementation
      nontrivial(line_bytes) -> bool
      rule                   text
      describe(tokens) -> json-able description of a case
      key(tag, tokens, diag) -> str  identity of a failure for KNOWN_FINDINGS
      what(tag, tokens, diag) -> str one-line description
      search_seeds           extra seeds to try when only the correspondence broke
      crosscheck             number of cases re-evaluated with vm_compute
    """
    if ctx.replay_path:
        return replay_flow(ctx, spec)
    ctx.log("tier=%s seed=%d" % (ctx.tier, ctx.seed))
    if spec.get("consts"):
        spec["consts"](ctx)
        ctx.end_consts()
    ctx.coq_build(spec["coq_targets"], clean=(ctx.tier == "thorough" and os.environ.get("VERIF_NO_CLEAN") != "1" and spec.get("clean_thorough", False)))
    if ctx.setup_only:
        ctx.build_driver()
        if spec.get("warm"):
            spec["warm"](ctx)
        bad = ctx.failed_obligations()
        for n, d in bad:
            ctx.log("setup problem: %s %s" % (n, d[:400]))
        sys.exit(1 if bad else 0)
    ctx.audit(spec["props"])
    if ctx.tier == "thorough" and os.environ.get("VERIF_NO_COQCHK") != "1" and not ctx.failed_obligations():
        # independent re-check of the compiled property file and everything it depends on
        mod = "Verif." + spec["props"][:-2].replace("/", ".")
        ctx.coqchk([mod], timeout=spec.get("coqchk_timeout", 3000))
    ctx.log("coq: %d obligations, %d failed" % (len(ctx.obligations), len(ctx.failed_obligations())))
    exe = ctx.build_driver()
    casefile = os.path.join(ctx.work, "cases.txt")
    for p in (casefile, casefile + ".cov"):
        if os.path.exists(p):
            os.remove(p)
    rc, out = spec["harness"](ctx, casefile, ctx.tier, ctx.seed)
    harness_ok = rc == 0 and os.path.exists(casefile)
    ctx.obligations.append(("harness:run", harness_ok, "" if harness_ok else out[-2500:]))
    ctx.log("harness rc=%d" % rc)
    res = None
    if exe and os.path.exists(casefile):
        res = ctx.run_driver(exe, casefile)
        if res["done"] is None:
            ctx.obligations.append(("driver:run", False, res.get("err", "")))
        else:
            n, cf, mf = res["done"]
            ctx.log("driver: %d cases, %d conformance mismatches, %d monitor failures" % (n, cf, mf))
            ctx.traces_validated = n
        ev, dn = count_cases(casefile, spec["nontrivial"])
        ctx.evaluations, ctx.distinct_nontrivial = ev, dn
        ctx.rule = spec["rule"]
        ctx.coverage_extra["input_distribution"] = read_cov(casefile)
        # samples: first non-trivial cases
        k = 0
        for ln, toks in read_cases(casefile):
            if spec["nontrivial"]((" ".join(map(str, toks)) + "\n").encode()):
                ctx.samples.append({"line": ln, "case": spec["describe"](toks) if spec.get("describe") else toks[:80]})
                k += 1
                if k >= 4:
                    break
        # vm_compute cross-check of a sample (extraction vs kernel evaluation)
        ncheck = spec.get("crosscheck", 200)
        if ncheck and res["done"] is not None and not ctx.failed_obligations():
            import random
            rnd = random.Random(ctx.seed)
            total = res["done"][0]
            picks = set(rnd.sample(range(total), min(ncheck, total)))
            lines, linenos = [], []
            for idx, (ln, toks) in enumerate(read_cases(casefile)):
                if idx in picks and len(toks) < 4000:
                    lines.append(toks)
                    linenos.append(ln)
            vm = ctx.vm_crosscheck(spec["spec_module"], lines)
            cmap = {ln: d for ln, d in res["C"]}
            mmap = {ln: d for ln, d in res["M"]}
            bad = 0
            if vm is None or len(vm) != len(lines):
                bad = -1
            else:
                for ln, (c, m) in zip(linenos, vm):
                    if c != cmap.get(ln, []) or m != mmap.get(ln, []):
                        bad += 1
            ctx.obligations.append(("extraction-vs-vm_compute:%d cases" % len(lines), bad == 0, "disagreements=%d" % bad))
    # ---- verdict ----------------------------------------------------------
    key = spec.get("key") or (lambda tag, toks, d: "%s:%s" % (tag, " ".join(map(str, toks[:200]))))
    what = spec.get("what") or (lambda tag, toks, d: "monitor diag %s" % d)
    desc = spec.get("describe") or (lambda toks: toks)
    reported = 0
    if res and res["M"]:
        want = {ln for ln, _ in res["M"][:50000]}
        lines = get_lines(casefile, want)
        cset = {ln for ln, _ in res["C"]}
        fails = sorted(((ln, d) for ln, d in res["M"] if ln in lines), key=lambda x: (len(lines[x[0]]), x[0]))
        seen = set()
        for ln, d in fails:
            toks = lines[ln]
            k = key("M", toks, d)
            if k in seen:
                continue
            seen.add(k)
            is_known = any(kk.get("key") == k and kk.get("status") == "finding" for kk in ctx.known)
            if reported < 3 or is_known:
                if ctx.report_failure(k, what("M", toks, d), {
                        "kind": "property fails on the implementation's own trace (monitor)",
                        "case": toks, "decoded": desc(toks), "diag": d,
                        "failing_cases_total": len(res["M"]),
                        "conformance_mismatch_too": ln in cset}):
                    reported += 1
    broken = ctx.failed_obligations()
    cmis = res["C"] if res else []
    if reported > 0 and broken:
        # failing inputs were found and reported above; the broken obligations are named too
        # (their own replay), since the failing inputs need not be the reason they broke
        names = [n for n, _ in broken]
        ctx.report_failure("broken:" + ";".join(names)[:300],
                           "no longer checks: " + ", ".join(names)[:300] + " (failing inputs reported separately)",
                           {"kind": "proof obligation no longer checks; failing inputs were found and are reported in their own replay files",
                            "no_longer_checks": names,
                            "details": {n: d[:1500] for n, d in broken}}, no_input=False)
    if reported == 0 and (broken or cmis):
        # correspondence / proof obligation broken, no failing input yet: search
        found = False
        for s2 in spec.get("search_seeds", [101, 202, 303] if ctx.tier == "quick" else [101, 202, 303, 404, 505, 606]):
            if not exe:
                break
            cf2 = os.path.join(ctx.work, "cases_search.txt")
            rc2, out2 = spec["harness"](ctx, cf2, "thorough" if spec.get("search_thorough", False) else ctx.tier, s2)
            if not os.path.exists(cf2):
                continue
            r2 = ctx.run_driver(exe, cf2, mode="monitor")
            if r2["M"]:
                ln, d = r2["M"][0]
                toks = get_line(cf2, ln)
                if ctx.report_failure(key("M", toks, d), what("M", toks, d), {
                        "kind": "found by search after a broken obligation/correspondence",
                        "case": toks, "decoded": desc(toks), "diag": d, "search_seed": s2,
                        "broken": [n for n, _ in broken][:10]}):
                    found = True
                    break
        if not found and not ctx.known_hits or (not found and (broken or cmis)):
            first = None
            if cmis:
                ln, d = cmis[0]
                toks = get_line(casefile, ln)
                first = {"case": toks, "decoded": desc(toks), "diag": d, "line": ln}
            names = [n for n, _ in broken]
            if cmis:
                names.append("correspondence:%s model vs implementation (%d mismatching cases)" % (ctx.pid, len(cmis)))
            ctx.report_failure("broken:" + ";".join(names)[:300],
                               "no longer checks: " + ", ".join(names)[:300],
                               {"kind": "proof obligation or correspondence no longer checks; no failing input found",
                                "no_longer_checks": names,
                                "details": {n: d[:1500] for n, d in broken},
                                "first_mismatch": first}, no_input=True)
    ctx.finish()


def replay_flow(ctx, spec):
    obj = json.load(open(ctx.replay_path))
    toks = obj.get("case") or (obj.get("first_mismatch") or {}).get("case")
    print(json.dumps({k: obj.get(k) for k in ("property", "what", "key", "kind", "diag", "no_longer_checks")}, indent=1))
    if not toks:
        print("replay file holds no case (broken obligation only)")
        sys.exit(1)
    # model/monitor verdict on the recorded case, evaluated in the kernel's VM
    vm = ctx.vm_crosscheck(spec["spec_module"], [toks])
    print("recorded case:", toks)
    if spec.get("describe"):
        print("decoded:", json.dumps(spec["describe"](toks)))
    print("model conform_case / monitor_case on recorded observations:", vm)
    # re-execute the case's operations on the implementation, if the harness can
    if spec.get("replay_harness"):
        cf = os.path.join(ctx.work, "cases_replay.txt")
        rc, out = spec["replay_harness"](ctx, cf, toks)
        if os.path.exists(cf):
            for ln, t2 in read_cases(cf):
                print("re-executed on /repo now:", t2)
                vm2 = ctx.vm_crosscheck(spec["spec_module"], [t2])
                print("conform_case / monitor_case on re-executed trace:", vm2)
                if vm2 and (vm2[0][0] or vm2[0][1]):
                    sys.exit(1)
            sys.exit(0)
    sys.exit(1 if (vm and (vm[0][0] or vm[0][1])) else 0)

#!/usr/bin/env python3
import sys
t = open('/verif/docs/AGENT_PROMPT.md').read()
ID, hours = sys.argv[1], sys.argv[2]
extra = sys.argv[3] if len(sys.argv) > 3 else ""
print(t.replace("{ID}", ID).replace("{lid}", ID.lower()).replace("{HOURS}", hours).replace("{EXTRA}", extra))

#!/usr/bin/env python3
"""Assemble /verif/MANIFEST.json from checks/manifest/*.json fragments."""
import json, os, glob
V = os.path.dirname(os.path.dirname(os.path.abspath(__file__)))
base = json.load(open("/root/.vp/BASELINE.json"))["cmd"] if os.path.exists("/root/.vp/BASELINE.json") else ""
props = [json.loads(l)["id"] for l in open(os.path.join(V, "properties.jsonl"))]
checks = []
for f in sorted(glob.glob(os.path.join(V, "checks/manifest/C*.json"))):
    checks.append(json.load(open(f)))
claimed = {c["property_id"] for c in checks}
na_reasons = {}
p = os.path.join(V, "checks/manifest/not_applicable.json")
if os.path.exists(p):
    na_reasons = json.load(open(p))
m = {
 "version": 1,
 "setup_cmd": "tools/setup.sh",
 "hooks": {
  "guard": "verif",
  "enable": "go test -tags verif -overlay <generated overlay.json> (harness files live under /verif/harness and are injected into /repo's packages at build time; /repo carries no hook code)",
  "baseline_off_cmd": base,
  "source_commits": [],
  "add_only": True
 },
 "engines": [
  {"name": "coq-proof+correspondence", "path": "coq/ tools/vlib.py harness/",
   "serves_properties": sorted(claimed),
   "kind_free_text": "Coq 8.16 models + theorems (coq/cNN), extracted model/monitor run over traces recorded from the real implementation by overlay-injected Go harnesses"}
 ],
 "checks": checks,
 "notes": "All checks: bin/check <ID> --tier quick|thorough. See DESIGN.md.",
 "not_applicable": [{"property_id": i, "reason": na_reasons.get(i, "check not built yet in this round (planned; see DESIGN.md section 11)")} for i in props if i not in claimed]
}
json.dump(m, open(os.path.join(V, "MANIFEST.json"), "w"), indent=1)
print("claimed:", sorted(claimed))

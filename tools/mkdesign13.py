#!/usr/bin/env python3
"""Regenerate the generated parts of DESIGN.md section 13 (between <!-- GEN:x --> ... <!-- /GEN:x --> markers):
seeded table (tools/seededtable.py) and theorem table (tools/theoremtable.py)."""
import re, subprocess
p = "/verif/DESIGN.md"
s = open(p).read()
def gen(name, text):
    global s
    a, b = "<!-- GEN:%s -->" % name, "<!-- /GEN:%s -->" % name
    if a not in s:
        raise SystemExit("marker %s missing" % a)
    s = s[:s.index(a) + len(a)] + "\n" + text.rstrip() + "\n" + s[s.index(b):]
seeded = subprocess.check_output(["/verif/tools/seededtable.py"]).decode()
rows = [l for l in seeded.splitlines() if l.startswith("| C")]
n = len(rows)
first_caught = sum(1 for l in rows if "| caught (concrete case)" in l)
first_noinput = sum(1 for l in rows if "| caught, no failing input" in l)
missed = sum(1 for l in rows if "| MISSED" in l)
still = sum(1 for l in rows if "still missed" in l)
final_concrete = sum(1 for l in rows if l.rstrip(" |").endswith("caught (concrete case)"))
summary = ("%d seeded changes are kept. On the first run of the check as it stood when the change was written: %d caught with a concrete failing "
           "input, %d caught only as a broken obligation / correspondence (no failing input), %d missed. After the checks were strengthened and the "
           "changes re-run: %d caught with a concrete failing input, %d not (missed, or noticed without a failing input; of these %d were re-run and are still missed, the others came in the last, short round 5 and were not worked on: see 13.10).\n\n" % (n, first_caught, first_noinput, missed, final_concrete, n - final_concrete, still))
gen("seeded", summary + seeded)
thm = subprocess.check_output(["/verif/tools/theoremtable.py"]).decode()
gen("theorems", "| Prop. | lines of Coq | theorems in Properties*.v | Examples | `_partial` / `_refuted` | first theorems |\n|---|---|---|---|---|---|\n" + thm)
import json, glob
notes = []
for f in sorted(glob.glob("/verif/checks/manifest/C*.json")):
    m = json.load(open(f))
    notes.append("* **%s** (%s). %s" % (m["property_id"], m["level_claimed"]["category"], m.get("level_note", "").strip()))
if "<!-- GEN:notes -->" in s:
    gen("notes", "\n".join(notes))
open(p, "w").write(s)
print("seeded:", n, "first caught", first_caught, "no-input", first_noinput, "missed", missed, "| final concrete", final_concrete, "still missed", still)

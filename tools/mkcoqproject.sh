#!/bin/sh
# Regenerate coq/_CoqProject and coq/Makefile from the .v files present.
set -e
cd "$(dirname "$0")/../coq"
{
  echo "-R . Verif"
  echo "-arg -w -arg -notation-overridden,-deprecated-hint-without-locality,-deprecated-instance-without-locality"
  ls lib/*.v gen/*.v c[0-9][0-9]/*.v 2>/dev/null | grep -v '/cases\|/zz_' | sort
} > _CoqProject.new
if ! cmp -s _CoqProject.new _CoqProject 2>/dev/null; then mv _CoqProject.new _CoqProject; else rm _CoqProject.new; fi
if [ ! -f Makefile ] || [ _CoqProject -nt Makefile ]; then
  coq_makefile -f _CoqProject -o Makefile >/dev/null
fi

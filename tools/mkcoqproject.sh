#!/bin/sh
# Regenerate coq/_CoqProject and coq/Makefile from the .v files present.
# Concurrent callers are serialised (its own lock, not the build lock: callers may hold that one).
set -e
cd "$(dirname "$0")/../coq"
mkdir -p ../.work
exec 9>../.work/coqproject.lock
flock 9
tmp="_CoqProject.new.$$"
{
  echo "-R . Verif"
  echo "-arg -w -arg -notation-overridden,-deprecated-hint-without-locality,-deprecated-instance-without-locality"
  ls lib/*.v gen/*.v c[0-9][0-9]/*.v 2>/dev/null | grep -v '/cases\|/zz_\|_dbg\.v\|/tmp_\|/scratch' | sort
} > "$tmp"
if ! cmp -s "$tmp" _CoqProject 2>/dev/null; then mv "$tmp" _CoqProject; else rm -f "$tmp"; fi
if [ ! -f Makefile ] || [ _CoqProject -nt Makefile ]; then
  coq_makefile -f _CoqProject -o Makefile >/dev/null
fi

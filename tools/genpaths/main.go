// genpaths: a small go/ast translator.  For each listed function (or function
// literal inside a function) of /repo it enumerates every control-flow path
// through the straight-line, early-return code and emits it as a Coq list of
// events (Verif.gen.Paths_c04).  It understands only the statement forms that
// occur in the listed functions; anything else becomes an `Unknown` event,
// which makes every balance predicate false (loud, never silent).
//
// usage: go run main.go <repo> <out.v> <spec>...
//   spec = <coqname>=<file>:<FuncName>            a top-level func or method
//        | <coqname>=<file>:<FuncName>#go<N>      the N-th `go func(){...}()` literal inside it
//
// Events:
//   Call callee outcome   a call expression, in evaluation order; outcome = OK/FAIL when the
//                         path goes through an `if err != nil` (or `== nil`, or `!ok`-style
//                         negated call) that tests the value the call assigned, NA otherwise
//   Cond text taken       any other branch condition
//   Comm text             the communication clause of a taken select case
//   CaseOf text           the taken case of a switch
//   Ret ok                return; ok = the last result expression is the identifier nil
//                         (or the function has no results)
//   Deferred callee       a deferred call, emitted after Ret in LIFO order
//   GoStart               a `go` statement (its literal can be extracted separately)
//   Cont / Brk            continue / break (the path ends there)
//   LoopEnd               fell off the end of the body of an unbounded `for { }` loop (one iteration is a
//                         path).  Bounded loops (`for cond {}`, `for range`) are unrolled: the body is
//                         executed 0, 1 and 2 (maxIter) times; a body path that falls off its end either
//                         leaves the loop (the condition is tested again and is false: the same Cond / Call
//                         events as for a loop that is not entered; `Cond "range X has next" false` for a
//                         range loop) and goes on after it, or re-enters (condition true) and runs the body
//                         again; after maxIter iterations it can only leave.
//   Unknown pos           unsupported statement form
package main

import (
	"fmt"
	"go/ast"
	"go/parser"
	"go/printer"
	"go/token"
	"os"
	"path/filepath"
	"strings"
)

type ev struct {
	kind string // Call Cond Comm CaseOf Ret Deferred GoStart Cont Brk LoopEnd Unknown
	text string
	flag string // OK FAIL NA / true false
}

type path struct {
	evs    []ev
	defers [][]path // each deferred call/literal: its own alternative paths (LIFO at exit)
	done   bool     // terminated (return/continue/break)
	// lastCallFor[name] = index in evs of the call that last assigned variable `name`
	lastCallFor map[string]int
}

func (p path) clone() path {
	q := path{evs: append([]ev{}, p.evs...), done: p.done, lastCallFor: map[string]int{}}
	q.defers = append([][]path{}, p.defers...)
	for k, v := range p.lastCallFor {
		q.lastCallFor[k] = v
	}
	return q
}

var fset = token.NewFileSet()

func txt(n ast.Node) string {
	var sb strings.Builder
	printer.Fprint(&sb, fset, n)
	s := strings.Join(strings.Fields(sb.String()), " ")
	return s
}

// calls in evaluation order (arguments before the call itself); does not
// descend into function literals
func callsIn(n ast.Node) []*ast.CallExpr {
	var res []*ast.CallExpr
	var visit func(n ast.Node)
	visit = func(n ast.Node) {
		if n == nil {
			return
		}
		switch x := n.(type) {
		case *ast.FuncLit:
			return
		case *ast.CallExpr:
			visit(x.Fun)
			for _, a := range x.Args {
				visit(a)
			}
			res = append(res, x)
			return
		}
		ast.Inspect(n, func(m ast.Node) bool {
			if m == n {
				return true
			}
			switch m.(type) {
			case *ast.FuncLit:
				return false
			case *ast.CallExpr:
				visit(m)
				return false
			}
			return true
		})
	}
	visit(n)
	return res
}

func calleeText(c *ast.CallExpr) string {
	// conversions / builtins are kept too; classification is the model's job
	return txt(c.Fun)
}

type gen struct {
	hasResults bool
	lastIsErr  bool // the last result has type error
	goLits     []*ast.FuncLit
}

// bounded loops are unrolled up to maxIter executions of the body
const maxIter = 2

func (g *gen) addCalls(p *path, n ast.Node, assigned []string) {
	cs := callsIn(n)
	for _, c := range cs {
		p.evs = append(p.evs, ev{"Call", calleeText(c), "NA"})
	}
	if len(cs) > 0 {
		// the outermost (last) call is the one whose results are assigned
		for _, a := range assigned {
			p.lastCallFor[a] = len(p.evs) - 1
		}
	}
}

func lhsNames(lhs []ast.Expr) []string {
	var r []string
	for _, e := range lhs {
		if id, ok := e.(*ast.Ident); ok && id.Name != "_" {
			r = append(r, id.Name)
		}
	}
	return r
}

// condition forms that test the result of a call: `x != nil`, `x == nil`, `!x`, `x`
func condVar(e ast.Expr) (name string, failWhenTrue bool, ok bool) {
	switch x := e.(type) {
	case *ast.BinaryExpr:
		id, isID := x.X.(*ast.Ident)
		nl, isNil := x.Y.(*ast.Ident)
		if isID && isNil && nl.Name == "nil" {
			if x.Op == token.NEQ {
				return id.Name, true, true
			}
			if x.Op == token.EQL {
				return id.Name, false, true
			}
		}
	case *ast.UnaryExpr:
		if id, isID := x.X.(*ast.Ident); isID && x.Op == token.NOT {
			return id.Name, true, true
		}
	case *ast.Ident:
		return x.Name, false, true
	}
	return "", false, false
}

func (g *gen) branch(p path, cond ast.Expr, taken bool) path {
	q := p.clone()
	if name, failWhenTrue, ok := condVar(cond); ok && (name == "err" || name == "ok" || strings.HasPrefix(name, "err")) {
		if idx, has := q.lastCallFor[name]; has && q.evs[idx].kind == "Call" {
			isErrVar := strings.HasPrefix(name, "err")
			fail := taken == failWhenTrue
			if !isErrVar {
				// `ok`-style booleans: `!ok` true = failure, `ok` true = success
				fail = taken == failWhenTrue
			}
			// a fresh copy of the event so sibling paths are not affected
			e := q.evs[idx]
			if want := map[bool]string{true: "FAIL", false: "OK"}[fail]; e.flag != "NA" && e.flag != want {
				// the outcome of this call was already decided the other way on this path and the
				// variable was not assigned since (a loop condition tested again after an iteration
				// that does not assign it): keep the path (conservative) with a free condition
				// instead of rewriting the outcome of the earlier call
				fl := "false"
				if taken {
					fl = "true"
				}
				q.evs = append(q.evs, ev{"Cond", "again: " + txt(cond), fl})
				return q
			}
			if fail {
				e.flag = "FAIL"
			} else {
				e.flag = "OK"
			}
			q.evs[idx] = e
			return q
		}
	}
	// calls inside the condition itself (e.g. `!gater.InterceptSecured(...)`)
	if ue, isNot := cond.(*ast.UnaryExpr); isNot && ue.Op == token.NOT {
		if c, isCall := ue.X.(*ast.CallExpr); isCall {
			g.addCalls(&q, c, nil)
			e := q.evs[len(q.evs)-1]
			if taken {
				e.flag = "FAIL"
			} else {
				e.flag = "OK"
			}
			q.evs[len(q.evs)-1] = e
			return q
		}
	}
	g.addCalls(&q, cond, nil)
	fl := "false"
	if taken {
		fl = "true"
	}
	q.evs = append(q.evs, ev{"Cond", txt(cond), fl})
	return q
}

// `a && b` / `a || b` conditions are split so that each conjunct that is a
// call test gets its own outcome
func (g *gen) branches(p path, cond ast.Expr) (tr []path, fa []path) {
	if be, ok := cond.(*ast.BinaryExpr); ok && (be.Op == token.LAND || be.Op == token.LOR) {
		if hasCall(be.X) || hasCall(be.Y) {
			lt, lf := g.branches(p, be.X)
			if be.Op == token.LAND {
				for _, q := range lt {
					t2, f2 := g.branches(q, be.Y)
					tr = append(tr, t2...)
					fa = append(fa, f2...)
				}
				fa = append(fa, lf...)
			} else {
				tr = append(tr, lt...)
				for _, q := range lf {
					t2, f2 := g.branches(q, be.Y)
					tr = append(tr, t2...)
					fa = append(fa, f2...)
				}
			}
			return
		}
	}
	return []path{g.branch(p, cond, true)}, []path{g.branch(p, cond, false)}
}

func hasCall(e ast.Expr) bool { return len(callsIn(e)) > 0 }

func (g *gen) stmts(ps []path, list []ast.Stmt) []path {
	for _, s := range list {
		var next []path
		for _, p := range ps {
			if p.done {
				next = append(next, p)
				continue
			}
			next = append(next, g.stmt(p, s)...)
		}
		ps = next
	}
	return ps
}

func (g *gen) stmt(p path, s ast.Stmt) []path {
	switch x := s.(type) {
	case *ast.ExprStmt:
		q := p.clone()
		g.addCalls(&q, x.X, nil)
		if ue, ok := x.X.(*ast.UnaryExpr); ok && ue.Op == token.ARROW {
			q.evs = append(q.evs, ev{"Comm", txt(x.X), ""})
		}
		return []path{q}
	case *ast.AssignStmt:
		q := p.clone()
		for _, n := range lhsNames(x.Lhs) {
			delete(q.lastCallFor, n)
		}
		for _, r := range x.Rhs {
			g.addCalls(&q, r, lhsNames(x.Lhs))
			if ue, ok := r.(*ast.UnaryExpr); ok && ue.Op == token.ARROW {
				q.evs = append(q.evs, ev{"Comm", txt(x), ""})
			}
		}
		return []path{q}
	case *ast.DeclStmt, *ast.IncDecStmt, *ast.EmptyStmt:
		q := p.clone()
		if d, ok := s.(*ast.DeclStmt); ok {
			g.addCalls(&q, d, nil)
		}
		return []path{q}
	case *ast.SendStmt:
		q := p.clone()
		g.addCalls(&q, x.Value, nil)
		q.evs = append(q.evs, ev{"Comm", txt(x), ""})
		return []path{q}
	case *ast.ReturnStmt:
		q := p.clone()
		for _, r := range x.Results {
			g.addCalls(&q, r, nil)
		}
		ok := "true"
		if g.lastIsErr && len(x.Results) > 0 {
			last := x.Results[len(x.Results)-1]
			if id, isID := last.(*ast.Ident); isID && id.Name == "nil" {
				ok = "true"
			} else if _, isCall := last.(*ast.CallExpr); isCall && len(x.Results) == 1 {
				// `return f(...)`: f's results are returned as they are
				ok = "tail"
			} else {
				ok = "false"
				// `return x, err` where err was last assigned by a call whose outcome this path
				// has already tested (`if err != nil { return ... }` not taken): a nil error
				if id, isID := last.(*ast.Ident); isID {
					if idx, has := q.lastCallFor[id.Name]; has && q.evs[idx].kind == "Call" && q.evs[idx].flag == "OK" {
						ok = "true"
					}
				}
			}
		}
		q.evs = append(q.evs, ev{"Ret", "", ok})
		q.done = true
		return []path{q}
	case *ast.BranchStmt:
		q := p.clone()
		switch x.Tok {
		case token.CONTINUE:
			q.evs = append(q.evs, ev{"Cont", "", ""})
		case token.BREAK:
			q.evs = append(q.evs, ev{"Brk", "", ""})
		default:
			q.evs = append(q.evs, ev{"Unknown", fset.Position(x.Pos()).String(), ""})
		}
		q.done = true
		return []path{q}
	case *ast.BlockStmt:
		return g.stmts([]path{p}, x.List)
	case *ast.IfStmt:
		ps := []path{p}
		if x.Init != nil {
			ps = g.stmts(ps, []ast.Stmt{x.Init})
		}
		var out []path
		for _, q := range ps {
			tr, fa := g.branches(q, x.Cond)
			out = append(out, g.stmts(tr, x.Body.List)...)
			if x.Else != nil {
				out = append(out, g.stmts(fa, []ast.Stmt{x.Else})...)
			} else {
				out = append(out, fa...)
			}
		}
		return out
	case *ast.DeferStmt:
		q := p.clone()
		if lit, ok := x.Call.Fun.(*ast.FuncLit); ok {
			sub := &gen{hasResults: false}
			alts := sub.stmts([]path{{lastCallFor: map[string]int{}}}, lit.Body.List)
			q.defers = append(q.defers, alts)
		} else {
			for _, a := range x.Call.Args {
				g.addCalls(&q, a, nil)
			}
			q.defers = append(q.defers, []path{{evs: []ev{{"Deferred", calleeText(x.Call), ""}}}})
		}
		return []path{q}
	case *ast.GoStmt:
		q := p.clone()
		if lit, ok := x.Call.Fun.(*ast.FuncLit); ok {
			_ = lit
			q.evs = append(q.evs, ev{"GoStart", "func literal", ""})
		} else {
			for _, a := range x.Call.Args {
				g.addCalls(&q, a, nil)
			}
			q.evs = append(q.evs, ev{"GoStart", calleeText(x.Call), ""})
		}
		return []path{q}
	case *ast.ForStmt:
		ps := []path{p}
		if x.Init != nil {
			ps = g.stmts(ps, []ast.Stmt{x.Init})
		}
		if x.Cond == nil {
			// `for { ... }`: one iteration is a path of its own, ending in
			// return / continue / break / LoopEnd
			var out []path
			for _, b := range g.stmts(ps, x.Body.List) {
				if !b.done {
					b = b.clone()
					b.evs = append(b.evs, ev{"LoopEnd", "", ""})
					b.done = true
				}
				out = append(out, b)
			}
			return out
		}
		return g.unroll(ps, func(q path) (tr, fa []path) { return g.branches(q, x.Cond) }, x.Body, x.Post)
	case *ast.RangeStmt:
		// `for x := range ch/slice`: the range expression is evaluated once; before every
		// iteration there is either nothing (more) to iterate over or a next element
		q0 := p.clone()
		g.addCalls(&q0, x.X, nil)
		has := "range " + txt(x.X) + " has next"
		var vars []ast.Expr
		if x.Key != nil {
			vars = append(vars, x.Key)
		}
		if x.Value != nil {
			vars = append(vars, x.Value)
		}
		return g.unroll([]path{q0}, func(q path) (tr, fa []path) {
			no := q.clone()
			no.evs = append(no.evs, ev{"Cond", has, "false"})
			yes := q.clone()
			yes.evs = append(yes.evs, ev{"Cond", has, "true"})
			for _, n := range lhsNames(vars) {
				delete(yes.lastCallFor, n)
			}
			return []path{yes}, []path{no}
		}, x.Body, nil)
	case *ast.SelectStmt:
		var out []path
		for _, c := range x.Body.List {
			cc := c.(*ast.CommClause)
			q := p.clone()
			if cc.Comm == nil {
				q.evs = append(q.evs, ev{"Comm", "default", ""})
			} else {
				q.evs = append(q.evs, ev{"Comm", txt(cc.Comm), ""})
				if as, ok := cc.Comm.(*ast.AssignStmt); ok {
					for _, n := range lhsNames(as.Lhs) {
						delete(q.lastCallFor, n)
					}
				}
			}
			out = append(out, g.stmts([]path{q}, cc.Body)...)
		}
		return out
	case *ast.SwitchStmt:
		ps := []path{p}
		if x.Init != nil {
			ps = g.stmts(ps, []ast.Stmt{x.Init})
		}
		var out []path
		for _, q0 := range ps {
			q0 = q0.clone()
			if x.Tag != nil {
				g.addCalls(&q0, x.Tag, nil)
			}
			hasDefault := false
			for _, c := range x.Body.List {
				cc := c.(*ast.CaseClause)
				q := q0.clone()
				if cc.List == nil {
					hasDefault = true
					q.evs = append(q.evs, ev{"CaseOf", "default", ""})
				} else {
					var parts []string
					for _, e := range cc.List {
						parts = append(parts, txt(e))
					}
					q.evs = append(q.evs, ev{"CaseOf", strings.Join(parts, ", "), ""})
				}
				out = append(out, g.stmts([]path{q}, cc.Body)...)
			}
			if !hasDefault {
				q := q0.clone()
				q.evs = append(q.evs, ev{"CaseOf", "none", ""})
				out = append(out, q)
			}
		}
		return out
	default:
		q := p.clone()
		q.evs = append(q.evs, ev{"Unknown", fmt.Sprintf("%T at %s", s, filepath.Base(fset.Position(s.Pos()).String())), ""})
		return []path{q}
	}
}

// unroll a bounded loop: `test` gives the paths on which the loop condition holds (the body is
// entered) and those on which it does not (the loop is left and the path goes on after it).
// The body is executed 0, 1, ..., maxIter times; paths that would need more iterations are
// not enumerated.  return / continue / break end a path
// where they stand (as in unbounded loops); a body path that falls off its end runs the post
// statement and tests the condition again.  Paths are cloned by every statement, so the
// lastCallFor map and the defers of an iteration never leak into a sibling path; a variable
// assigned again in the next iteration is rebound by the assignment itself.
func (g *gen) unroll(ps []path, test func(q path) (tr, fa []path), body *ast.BlockStmt, post ast.Stmt) []path {
	var out []path
	cur := ps
	for i := 0; ; i++ {
		var enter []path
		for _, q := range cur {
			tr, fa := test(q)
			out = append(out, fa...) // the loop is left after i iterations
			enter = append(enter, tr...)
		}
		if i == maxIter || len(enter) == 0 {
			break
		}
		cur = nil
		for _, b := range g.stmts(enter, body.List) {
			if b.done {
				out = append(out, b)
			} else if post != nil {
				cur = append(cur, g.stmt(b, post)...)
			} else {
				cur = append(cur, b)
			}
		}
	}
	return out
}

// finish: falling off the end is a return; then append the deferred
// alternatives in LIFO order (cross product)
func finish(ps []path, hasResults bool) [][]ev {
	var out [][]ev
	for _, p := range ps {
		evs := append([]ev{}, p.evs...)
		if !p.done {
			evs = append(evs, ev{"Ret", "", "true"})
		}
		alts := [][]ev{evs}
		for i := len(p.defers) - 1; i >= 0; i-- {
			var next [][]ev
			for _, a := range alts {
				for _, d := range p.defers[i] {
					devs := append([]ev{}, d.evs...)
					// a deferred literal's own Ret/terminators are dropped
					var keep []ev
					for _, e := range devs {
						if e.kind == "Ret" {
							continue
						}
						if e.kind == "Call" {
							e.kind = "Deferred"
						}
						keep = append(keep, e)
					}
					next = append(next, append(append([]ev{}, a...), keep...))
				}
			}
			alts = next
		}
		out = append(out, alts...)
	}
	return out
}

func (g *gen) init2(ft *ast.FuncType) {
	g.hasResults = ft.Results != nil && len(ft.Results.List) > 0
	g.lastIsErr = false
	if g.hasResults {
		last := ft.Results.List[len(ft.Results.List)-1]
		if id, ok := last.Type.(*ast.Ident); ok && id.Name == "error" {
			g.lastIsErr = true
		}
	}
}

func coqString(s string) string { return `"` + strings.ReplaceAll(s, `"`, `""`) + `"` }

func emit(sb *strings.Builder, name string, paths [][]ev, src string) {
	fmt.Fprintf(sb, "(* %s : %d paths *)\nDefinition %s : list (list ev) := [\n", src, len(paths), name)
	for i, p := range paths {
		sb.WriteString("  [")
		for j, e := range p {
			if j > 0 {
				sb.WriteString("; ")
			}
			switch e.kind {
			case "Call":
				fmt.Fprintf(sb, "Call %s %s", coqString(e.text), e.flag)
			case "Cond":
				fmt.Fprintf(sb, "Cond %s %s", coqString(e.text), e.flag)
			case "Comm":
				fmt.Fprintf(sb, "Comm %s", coqString(e.text))
			case "CaseOf":
				fmt.Fprintf(sb, "CaseOf %s", coqString(e.text))
			case "Ret":
				switch e.flag {
				case "true":
					sb.WriteString("Ret ROk")
				case "false":
					sb.WriteString("Ret RErr")
				default:
					sb.WriteString("Ret RTail")
				}
			case "Deferred":
				fmt.Fprintf(sb, "Deferred %s", coqString(e.text))
			case "GoStart":
				fmt.Fprintf(sb, "GoStart %s", coqString(e.text))
			case "Cont":
				sb.WriteString("Cont")
			case "Brk":
				sb.WriteString("Brk")
			case "LoopEnd":
				sb.WriteString("LoopEnd")
			default:
				fmt.Fprintf(sb, "Unknown %s", coqString(e.text))
			}
		}
		sb.WriteString("]")
		if i < len(paths)-1 {
			sb.WriteString(";")
		}
		sb.WriteString("\n")
	}
	sb.WriteString("].\n\n")
}

func findFunc(f *ast.File, name string) *ast.FuncDecl {
	// name is Func or Recv.Func
	for _, d := range f.Decls {
		fd, ok := d.(*ast.FuncDecl)
		if !ok || fd.Body == nil {
			continue
		}
		n := fd.Name.Name
		if fd.Recv != nil && len(fd.Recv.List) > 0 {
			t := fd.Recv.List[0].Type
			if st, ok := t.(*ast.StarExpr); ok {
				t = st.X
			}
			if ix, ok := t.(*ast.IndexExpr); ok {
				t = ix.X
			}
			if id, ok := t.(*ast.Ident); ok {
				n = id.Name + "." + n
			}
		}
		if n == name {
			return fd
		}
	}
	return nil
}

func main() {
	if len(os.Args) < 4 {
		fmt.Fprintln(os.Stderr, "usage: genpaths <repo> <out.v> <spec>...")
		os.Exit(2)
	}
	repo, out := os.Args[1], os.Args[2]
	var sb strings.Builder
	sb.WriteString("(* REGENERATED from /repo on every run by tools/genpaths; do not edit *)\n")
	sb.WriteString("From Coq Require Import List String.\nFrom Verif Require Import c04.Events.\nImport ListNotations.\nLocal Open Scope string_scope.\n\n")
	files := map[string]*ast.File{}
	failed := false
	for _, spec := range os.Args[3:] {
		eq := strings.SplitN(spec, "=", 2)
		loc := strings.SplitN(eq[1], ":", 2)
		fn := loc[1]
		lit := -1
		if i := strings.Index(fn, "#go"); i >= 0 {
			fmt.Sscanf(fn[i+3:], "%d", &lit)
			fn = fn[:i]
		}
		f, ok := files[loc[0]]
		if !ok {
			var err error
			f, err = parser.ParseFile(fset, filepath.Join(repo, loc[0]), nil, 0)
			if err != nil {
				fmt.Fprintln(os.Stderr, "parse:", err)
				os.Exit(1)
			}
			files[loc[0]] = f
		}
		fd := findFunc(f, fn)
		if fd == nil {
			fmt.Fprintf(os.Stderr, "function %s not found in %s\n", fn, loc[0])
			fmt.Fprintf(&sb, "Definition %s : list (list ev) := [[Unknown %s]].\n\n", eq[0], coqString("missing function "+eq[1]))
			failed = true
			continue
		}
		g := &gen{}
		g.init2(fd.Type)
		ps := g.stmts([]path{{lastCallFor: map[string]int{}}}, fd.Body.List)
		if lit < 0 {
			emit(&sb, eq[0], finish(ps, g.hasResults), eq[1])
			continue
		}
		// collect go-literals in source order, including nested ones
		var lits []*ast.FuncLit
		ast.Inspect(fd.Body, func(n ast.Node) bool {
			if gs, ok := n.(*ast.GoStmt); ok {
				if l, ok := gs.Call.Fun.(*ast.FuncLit); ok {
					lits = append(lits, l)
				}
			}
			return true
		})
		if lit >= len(lits) {
			fmt.Fprintf(&sb, "Definition %s : list (list ev) := [[Unknown %s]].\n\n", eq[0], coqString("missing go literal "+eq[1]))
			failed = true
			continue
		}
		g2 := &gen{}
		g2.init2(lits[lit].Type)
		ps2 := g2.stmts([]path{{lastCallFor: map[string]int{}}}, lits[lit].Body.List)
		emit(&sb, eq[0], finish(ps2, g2.hasResults), eq[1])
	}
	if err := os.WriteFile(out, []byte(sb.String()), 0o644); err != nil {
		fmt.Fprintln(os.Stderr, err)
		os.Exit(1)
	}
	if failed {
		os.Exit(3)
	}
}

#!/bin/sh
# usage: tools/goals.sh coq/c20/Proofs.v LINE [N] -- show goals after LINE (file truncated there)
f="$1"; n="$2"
mkdir -p /verif/.work/goals
tmp="/verif/.work/goals/g_$$.v"
head -n "$n" "$f" > "$tmp"; printf '\nShow.\nAbort All.\n' >> "$tmp"
cd /verif/coq && coqc -R . Verif -w none "$tmp" 2>&1 | tail -${3:-60}
rm -f /verif/.work/goals/g_$$.* /verif/.work/goals/.g_$$.aux

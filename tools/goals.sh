#!/bin/sh
# usage: tools/goals.sh coq/c20/Proofs.v LINE  -- show goals after LINE (file truncated there)
f="$1"; n="$2"; d=$(dirname "$f"); b=$(basename "$f" .v)
tmp="$d/zz_goal_$b.v"
head -n "$n" "$f" > "$tmp"; printf '\nShow.\nAbort All.\n' >> "$tmp"
cd "$(dirname "$0")/../coq" && coqc -R . Verif -w none "$(realpath --relative-to=. "$tmp")" 2>&1 | tail -${3:-60}
rm -f "$tmp" "$d/zz_goal_$b.vo" "$d/zz_goal_$b.glob" "$d/.zz_goal_$b.aux" "$d/zz_goal_$b.vos" "$d/zz_goal_$b.vok"

#!/usr/bin/env python3
"""Print the prompt for an independent mutation author for property <ID> working in /tmp/adv-<id>."""
import json, sys
ID = sys.argv[1]
n = sys.argv[2] if len(sys.argv) > 2 else "4"
p = [json.loads(l) for l in open('/verif/properties.jsonl') if json.loads(l)['id'] == ID][0]
wt = "/tmp/adv-" + ID.lower()
print(f"""You are a careful Go engineer acting as a *mutation author*. You have your own scratch git worktree of the
libp2p/go-libp2p repository at {wt} (work ONLY there; never touch /repo or /verif; do not read anything under
/verif). Build/test offline with `export GOPROXY=off` (do NOT set GOFLAGS, GOSUMDB or GOTOOLCHAIN; always pass
-vet=off), e.g. `cd {wt} && go test -vet=off -count=1 ./<pkg>/`. Some tests fail or flake on the unmodified tree
(e.g. TestDialWorkerLoopTCPConnUpgradeWait in p2p/net/swarm always fails): when an existing test fails with your
change, check whether it also fails without it before blaming the change.

Property under attack (it must hold of the code):

TITLE: {p['title']}
STATEMENT: {p['statement']}
QUANTIFIED OVER: {p['quantifier']['text']}
ANCHORED IN: {', '.join(p['anchors']['files'])}

Task: produce {n} different, realistic changes to the Go code (each a small patch a tired maintainer could
plausibly merge: an off-by-one, a reordered check, a dropped undo/reset/close, a wrong operand, a condition right
for one input class and wrong for another, a missing re-check after a state change, two sites that each look fine
alone) such that each one (a) still compiles, (b) still passes the existing tests of the packages it touches (run
them), and (c) BREAKS the property, but only in a situation that needs something specific to manifest (a particular
multi-step sequence of operations, a particular interleaving or fault point, an unusual input or configuration, a
boundary value), not something ordinary use would expose at once. Aim for variety: spread the changes over
different functions/files of the anchored code and over different sentences of the property statement.

For each change i = 1..{n} create a directory {wt}/out/m<i>/ containing:
  - patch.diff   (`git diff` for that change alone relative to HEAD; applicable with `git apply`)
  - demo_test.go (a Go test file with a header comment saying into which package directory it must be copied; its
                  test FAILS with the change applied and PASSES on the unmodified tree — verify both yourself)
  - meta.json    {{"property":"{ID}","summary":"...","breaks_sentence":"which sentence of the statement","needs":"what
                  specific situation it needs to manifest","demo_pkg":"<package dir>","demo_run":"<-run regex>",
                  "ran":["commands you ran and their outcomes"]}}
NEVER use `git stash` (the stash is shared by all worktrees of the repository and other agents work in sibling worktrees); to test with/without a change use `git diff > p.diff; git apply -R p.diff; ...; git apply p.diff`. Keep the working tree clean between changes (`git -C {wt} checkout -- . && git -C {wt} clean -fdq -e out`), and
leave it clean at the end (only out/ remains, untracked). Reply with a short list of the changes (2-3 lines each:
what, which sentence it breaks, what it needs) and confirm for each: existing tests pass, demo fails with / passes
without the patch.""")

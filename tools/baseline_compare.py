#!/usr/bin/env python3
"""Compare a `go test -json` log with /root/.vp/BASELINE.json stable_pass."""
import json, sys
b = json.load(open("/root/.vp/BASELINE.json"))
stable = set(b["stable_pass"])
res = {}
for line in open(sys.argv[1], errors="replace"):
    line = line.strip()
    if not line.startswith("{"):
        continue
    try:
        e = json.loads(line)
    except Exception:
        continue
    if e.get("Test") and e.get("Action") in ("pass", "fail", "skip"):
        res["%s::%s" % (e["Package"], e["Test"])] = e["Action"]
missing = sorted(t for t in stable if res.get(t) != "pass")
print("stable_pass=%d passed_now=%d failed_now=%d" % (len(stable), sum(1 for v in res.values() if v == "pass"), sum(1 for v in res.values() if v == "fail")))
print("stable tests not passing now: %d" % len(missing))
for t in missing[:40]:
    print("  ", t, res.get(t))
print("failing now:", sorted(k for k, v in res.items() if v == "fail")[:20])
sys.exit(1 if missing else 0)

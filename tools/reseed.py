#!/usr/bin/env python3
"""tools/reseed.py <ID> <mN>...  re-run bin/check <ID> against seeded/<ID>-<mN>/patch.diff in a scratch
worktree and record the outcome as meta.json["after_strengthening"]."""
import json, os, re, subprocess, sys
ID = sys.argv[1]
for m in sys.argv[2:]:
    d = "/verif/seeded/%s-%s" % (ID, m)
    wt = "/tmp/reseed-%s-%s" % (ID.lower(), m)
    subprocess.run(["git", "-C", "/repo", "worktree", "remove", "--force", wt], capture_output=True)
    subprocess.run(["git", "-C", "/repo", "worktree", "add", "-f", wt, "HEAD"], capture_output=True, check=True)
    try:
        r = subprocess.run(["git", "-C", wt, "apply", os.path.join(d, "patch.diff")], capture_output=True)
        if r.returncode != 0:
            res = {"detected": None, "note": "patch no longer applies to /repo HEAD: " + r.stderr.decode()[:300]}
        else:
            env = dict(os.environ, VERIF_REPO=wt)
            p = subprocess.run(["bin/check", ID], cwd="/verif", env=env, capture_output=True, timeout=3000)
            out = p.stdout.decode()
            viol = re.findall(r"^VIOLATION.*$", out, re.M)
            res = {"detected": bool(viol),
                   "concrete_failing_input": bool(viol) and not all("no-failing-input-found" in v for v in viol),
                   "violation_lines": len(viol), "exit": p.returncode}
            if viol:
                f = viol[0].split("replay=")[1].split()[0]
                try:
                    res["what"] = str(json.load(open(f)).get("what"))[:300]
                except Exception:
                    pass
        mp = os.path.join(d, "meta.json")
        meta = json.load(open(mp))
        meta["after_strengthening"] = res
        json.dump(meta, open(mp, "w"), indent=1)
        print(ID, m, res)
    finally:
        subprocess.run(["git", "-C", "/repo", "worktree", "remove", "--force", wt], capture_output=True)

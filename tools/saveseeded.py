#!/usr/bin/env python3
"""tools/saveseeded.py <ID> <worktree> <advrun log>: copy out/m*/ into /verif/seeded/<ID>-m<i>/ with the
coordinator's detection result taken from the advrun log."""
import json, os, re, shutil, sys
ID, wt, log = sys.argv[1], sys.argv[2], open(sys.argv[3]).read()
blocks = re.split(r"^== ", log, flags=re.M)[1:]
res = {}
for b in blocks:
    name = b.split(":")[0].strip()          # out/m1
    viol = re.findall(r"^VIOLATION.*$", b, re.M)
    rep = re.findall(r"^\s+replay: (.*)$", b, re.M)
    res[os.path.basename(name)] = {
        "detected": bool(viol),
        "concrete_failing_input": bool(viol) and not all("no-failing-input-found" in v for v in viol),
        "violation_lines": len(viol),
        "what": rep[-1] if (rep and viol) else "",
    }
for m in sorted(os.listdir(os.path.join(wt, "out"))):
    src = os.path.join(wt, "out", m)
    if not os.path.isdir(src):
        continue
    dst = os.path.join("/verif/seeded", "%s-%s" % (ID, m))
    os.makedirs(dst, exist_ok=True)
    for f in os.listdir(src):
        shutil.copy(os.path.join(src, f), dst)
    mp = os.path.join(dst, "meta.json")
    meta = json.load(open(mp)) if os.path.exists(mp) else {}
    meta["property"] = ID
    cp = os.path.join(dst, "confirm.json")
    if os.path.exists(cp):
        meta["coordinator_confirm"] = json.load(open(cp)); os.remove(cp)
    meta["coordinator_run"] = dict(res.get(m, {}), command="git apply patch.diff in a scratch worktree; VERIF_REPO=<worktree> bin/check %s" % ID)
    json.dump(meta, open(mp, "w"), indent=1)
    print(m, res.get(m))

#!/usr/bin/env python3
"""Second-round adversary prompt: like mkadv.py plus a list of ideas already used (do not repeat)."""
import json, os, subprocess, sys, glob, re
ID = sys.argv[1]; n = sys.argv[2] if len(sys.argv) > 2 else "4"
base = subprocess.check_output(["/verif/tools/mkadv.py", ID, n]).decode()
base = base.replace("/tmp/adv-" + ID.lower(), "/tmp/adv2-" + ID.lower())
used = []
for f in sorted(glob.glob("/verif/seeded/%s-m*/meta.json" % ID)):
    m = json.load(open(f))
    used.append("- " + re.sub(r"\s+", " ", str(m.get("summary", "")))[:260])
extra = ("\n\nThis is a SECOND round. The following changes were already produced by an earlier author — do NOT repeat them or close variants; "
         "look for breaks in other functions, other sentences of the statement, other input classes or interleavings:\n" + "\n".join(used) + "\n"
         "Number your changes m5, m6, ... (directories out/m5 etc.).\n")
print(base + extra)

#!/bin/sh
# MANIFEST.setup_cmd: build everything from files on disk, offline.
# Regenerates coq/gen from /repo, builds the whole Coq development (full .vo),
# the extracted drivers, and warms the Go build cache for the harness packages.
cd "$(dirname "$0")/.."
export GOPROXY=off
unset GOFLAGS
rc=0
for f in checks/c[0-9][0-9].py; do
  [ -f "$f" ] || continue
  echo "== setup $f"
  python3 "$f" --setup || rc=1
done
exit $rc

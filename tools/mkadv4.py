#!/usr/bin/env python3
"""Second-round adversary prompt: like mkadv.py plus a list of ideas already used (do not repeat)."""
import json, os, subprocess, sys, glob, re
ID = sys.argv[1]; n = sys.argv[2] if len(sys.argv) > 2 else "4"
base = subprocess.check_output(["/verif/tools/mkadv.py", ID, n]).decode()
base = base.replace("/tmp/adv-" + ID.lower(), "/tmp/adv4-" + ID.lower())
used = []
for f in sorted(glob.glob("/verif/seeded/%s-m*/meta.json" % ID)):
    m = json.load(open(f))
    used.append("- " + re.sub(r"\s+", " ", str(m.get("summary", "")))[:260])
nums = [int(re.search(r"-m(\d+)/", f).group(1)) for f in glob.glob("/verif/seeded/%s-m*/meta.json" % ID)]
nxt = max(nums + [4]) + 1
extra = ("\n\nThis is a FURTHER round (earlier rounds already produced the changes listed below). The following changes were already produced by an earlier author — do NOT repeat them or close variants; "
         "look for breaks in other functions, other sentences of the statement, other input classes or interleavings:\n" + "\n".join(used) + "\n"
         "Number your changes m%d, m%d, ... (directories out/m%d etc.).\n" % (nxt, nxt + 1, nxt))
print(base + extra)

#!/bin/sh
# tools/advrun.sh <ID> <worktree>  -- run bin/check <ID> against each out/m*/patch.diff of an adversary worktree
ID="$1"; WT="$2"
cd "$WT" || exit 1
for d in out/m*; do
  [ -f "$d/patch.diff" ] || continue
  git checkout -q -- . ; git clean -fdq -e out -e PROMPT.md
  if ! git apply "$d/patch.diff"; then echo "== $d: patch does not apply"; continue; fi
  echo "== $d: $(python3 -c "import json;print(json.load(open('$d/meta.json')).get('summary','')[:150])" 2>/dev/null)"
  (cd /verif && VERIF_REPO="$WT" timeout 1500 bin/check "$ID" 2>&1 | grep -E "VIOLATION|KNOWN-FINDING|driver:|obligations [0-9]" | cut -c1-220)
  # keep the newest replay's summary
  f=$(ls -t /verif/replays/${ID}_*.json 2>/dev/null | head -1)
  [ -n "$f" ] && python3 -c "import json;o=json.load(open('$f'));print('   replay:', str(o.get('what'))[:300])"
done
git checkout -q -- . ; git clean -fdq -e out -e PROMPT.md
